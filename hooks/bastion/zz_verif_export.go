//go:build verif

package bastion

import (
	"io"
	"net/http"

	"github.com/transparency-dev/witness/internal/config"
	"github.com/transparency-dev/witness/internal/feeder"
	"golang.org/x/time/rate"
)

// VerifNewHandler builds the add-checkpoint handler the way FeedBastion does.
func VerifNewHandler(c Config, w feeder.Witness) http.Handler {
	initMetrics()
	h := &addHandler{w: w, logs: make(map[string]config.Log), witVerifier: c.WitnessVerifier,
		limiter: rate.NewLimiter(c.Limits.TotalPerSecond, int(c.Limits.TotalPerSecond))}
	for _, l := range c.Logs {
		h.logs[l.ID] = l
	}
	return h
}

// VerifParseBody exposes the add-checkpoint body parser.
func VerifParseBody(r io.Reader) (uint64, [][]byte, []byte, error) { return parseBody(r) }
