//go:build verif

package main

// Add-only verification hook (injected with -overlay, never present in /repo): exercises the repository's own
// writer of the add-checkpoint body format (bastionClient.Update) and reads what it wrote back with a reference
// reader written from c2sp.org/tlog-witness. Property C11, writer side.

import (
	"bytes"
	"context"
	"encoding/base64"
	"fmt"
	"io"
	"math/rand/v2"
	"net/http"
	"os"
	"strconv"
	"strings"
	"testing"
)

type captureRT struct{ body []byte }

func (c *captureRT) RoundTrip(r *http.Request) (*http.Response, error) {
	c.body, _ = io.ReadAll(r.Body)
	return &http.Response{StatusCode: 200, Status: "200 OK", Body: io.NopCloser(strings.NewReader("")), Header: http.Header{}, Request: r}, nil
}

// refRead is the reference reader: size line, base64 lines, blank line, the rest.
func refRead(b []byte) (uint64, [][]byte, []byte, error) {
	i := bytes.IndexByte(b, '\n')
	if i < 0 || !bytes.HasPrefix(b, []byte("old ")) {
		return 0, nil, nil, fmt.Errorf("no size line")
	}
	old, err := strconv.ParseUint(string(b[4:i]), 10, 64)
	if err != nil {
		return 0, nil, nil, err
	}
	rest := b[i+1:]
	var proof [][]byte
	for {
		j := bytes.IndexByte(rest, '\n')
		if j < 0 {
			return 0, nil, nil, fmt.Errorf("no separator")
		}
		line := rest[:j]
		rest = rest[j+1:]
		if len(line) == 0 {
			return old, proof, rest, nil
		}
		h, err := base64.StdEncoding.DecodeString(string(line))
		if err != nil {
			return 0, nil, nil, err
		}
		proof = append(proof, h)
	}
}

func TestVerifBodyWriter(t *testing.T) {
	seed, _ := strconv.ParseUint(os.Getenv("VERIF_SEED"), 10, 64)
	r := rand.New(rand.NewPCG(seed, 0xc11))
	n := 0
	// ONE client for the whole sequence, as the tool has in looping mode: the same log comes round again, often with an
	// unchanged checkpoint and another proof - what is written must be what this call was given, not what an earlier one was
	rt := &captureRT{}
	bc := &bastionClient{httpClient: &http.Client{Transport: rt}, url: "http://bastion.example/add-checkpoint", originByLogID: map[string]string{}}
	var prevCP []byte
	for i := 0; i < 3000; i++ {
		var proof [][]byte
		for k := r.IntN(5) * r.IntN(17); k > 0; k-- {
			h := make([]byte, 1+r.IntN(64))
			for j := range h {
				h[j] = byte(r.Uint32())
			}
			proof = append(proof, h)
		}
		var cp []byte
		switch r.IntN(6) {
		case 0:
			cp = []byte("origin\n5\nAAAA\n\n— sig line\n")
		case 1:
			cp = []byte("origin\n5\nAAAA\n\n— no trailing newline")
		case 2:
			cp = []byte{}
		case 3:
			cp = []byte("\n\nblank lines first\n\n")
		default:
			cp = make([]byte, r.IntN(300))
			for j := range cp {
				cp[j] = byte(r.Uint32())
			}
		}
		if i > 0 && r.IntN(3) == 0 {
			cp = prevCP // the same checkpoint again (with this round's proof)
		}
		prevCP = cp
		rt.body = nil
		if _, err := bc.Update(context.Background(), []string{"someid", "otherid"}[r.IntN(2)], 0, cp, proof); err != nil {
			t.Fatalf("VERIFWRITER MISMATCH case %d: Update: %v", i, err)
		}
		old, gotProof, gotCP, err := refRead(rt.body)
		if err != nil {
			t.Fatalf("VERIFWRITER MISMATCH case %d: what the writer wrote for %d hashes and a %d-byte checkpoint does not read back: %v", i, len(proof), len(cp), err)
		}
		if old != 0 {
			t.Fatalf("VERIFWRITER MISMATCH case %d: old size %d", i, old)
		}
		if len(gotProof) != len(proof) {
			t.Fatalf("VERIFWRITER MISMATCH case %d: wrote %d hashes, read back %d", i, len(proof), len(gotProof))
		}
		for j := range proof {
			if !bytes.Equal(proof[j], gotProof[j]) {
				t.Fatalf("VERIFWRITER MISMATCH case %d: hash %d differs", i, j)
			}
		}
		if !bytes.Equal(cp, gotCP) {
			t.Fatalf("VERIFWRITER MISMATCH case %d: wrote a %d-byte checkpoint %q, read back %d bytes %q", i, len(cp), trunc(cp), len(gotCP), trunc(gotCP))
		}
		n++
	}
	fmt.Printf("VERIFWRITER ok cases=%d\n", n)
}

func trunc(b []byte) []byte {
	if len(b) > 40 {
		return b[len(b)-40:]
	}
	return b
}
