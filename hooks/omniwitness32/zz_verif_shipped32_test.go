//go:build verif

package omniwitness

// Add-only verification hook (injected with -overlay, never present in /repo). Property C17 on a 32-bit build: every
// shipped entry's feeder must get as far as asking its log (values of the shipped configuration, such as the 19-digit
// Rekor tree IDs, must not depend on the width of int). Run by ./check C17 with GOARCH=386 CGO_ENABLED=0.

import (
	"context"
	"fmt"
	"net/http"
	"net/url"
	"os"
	"strings"
	"sync"
	"testing"
	"time"

	"github.com/transparency-dev/witness/internal/config"
	"gopkg.in/yaml.v3"
)

type verifRecordRT struct {
	mu    sync.Mutex
	hosts map[string]int
}

func (r *verifRecordRT) RoundTrip(q *http.Request) (*http.Response, error) {
	r.mu.Lock()
	r.hosts[q.URL.Host]++
	r.mu.Unlock()
	return &http.Response{StatusCode: 404, Status: "404 Not Found", Body: http.NoBody, Header: http.Header{}, Request: q}, nil
}

type verifNoWitness struct{}

func (verifNoWitness) GetLatestCheckpoint(ctx context.Context, logID string) ([]byte, error) {
	return nil, os.ErrNotExist
}
func (verifNoWitness) Update(ctx context.Context, logID string, oldSize uint64, newCP []byte, proof [][]byte) ([]byte, error) {
	return nil, fmt.Errorf("no witness here")
}

func TestVerifShipped32(t *testing.T) {
	cfg := LogConfig{}
	if err := yaml.Unmarshal(ConfigLogs, &cfg); err != nil {
		t.Fatalf("VERIFSHIPPED32 FAIL the shipped configuration does not parse: %v", err)
	}
	n := 0
	for _, l := range cfg.Logs {
		if l.Feeder == None {
			continue
		}
		lc, err := config.NewLog(l.Origin, l.PublicKey, l.URL)
		if err != nil {
			t.Errorf("VERIFSHIPPED32 FAIL entry %q: %v", l.Origin, err)
			continue
		}
		u, err := url.Parse(l.URL)
		if err != nil {
			t.Errorf("VERIFSHIPPED32 FAIL entry %q: URL: %v", l.Origin, err)
			continue
		}
		rt := &verifRecordRT{hosts: map[string]int{}}
		ctx, cancel := context.WithTimeout(context.Background(), 5*time.Second)
		ferr := l.Feeder.FeedFunc()(ctx, lc, verifNoWitness{}, &http.Client{Transport: rt, Timeout: 2 * time.Second}, 0)
		cancel()
		if rt.hosts[u.Host] == 0 {
			t.Errorf("VERIFSHIPPED32 FAIL entry %q (%v feeder): gave up before asking %s: %v", l.Origin, l.Feeder, u.Host, ferr)
		}
		n++
	}
	if !t.Failed() {
		fmt.Printf("VERIFSHIPPED32 ok entries=%d goarch=%s\n", n, strings.TrimSpace(os.Getenv("GOARCH")))
	}
}
