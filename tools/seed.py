#!/usr/bin/env python3
"""Confirm a seeded change in a scratch worktree and run checks against it.

  tools/seed.py <deliver-dir> <seed-id> <property> <dest-package-dir> [--checks C01,C05] [--tier quick]

<deliver-dir> holds patch.diff, a demonstration (*_test.go, copied into <dest-package-dir>) and README.md.
Steps (all in a scratch worktree of /repo outside /repo and /verif, removed afterwards):
  1. clean tree + demo: the demo passes;
  2. patched tree without the demo: go build ./... and the full suite pass;
  3. patched tree + demo: the demo fails;
  4. each named check is run with VERIF_REPO pointing at the patched worktree; exit 1 with a VIOLATION line = caught.
Writes /verif/seeded/<seed-id>/{patch.diff, demo files, README.md, meta.json}.
"""
import json, os, shutil, subprocess, sys, glob, time

ENV = dict(os.environ, GOFLAGS="-mod=mod", GOPROXY="off", GOSUMDB="off")


def sh(cmd, cwd, env=ENV, timeout=1800):
    p = subprocess.run(cmd, cwd=cwd, env=env, shell=True, stdout=subprocess.PIPE, stderr=subprocess.STDOUT, text=True, timeout=timeout)
    return p.returncode, p.stdout


def main():
    a = sys.argv[1:]
    src, sid, prop, dest = a[0], a[1], a[2], a[3]
    checks = [prop]
    tier = "quick"
    if "--checks" in a:
        checks = a[a.index("--checks") + 1].split(",")
    if "--tier" in a:
        tier = a[a.index("--tier") + 1]
    needs = a[a.index("--needs") + 1] if "--needs" in a else ""
    wt = "/tmp/seedwt-%d" % os.getpid()
    rc, out = sh("git -C /repo worktree add -q --detach %s HEAD" % wt, "/")
    if rc:
        print(out)
        return 2
    meta = {"id": sid, "property": prop, "needs_to_manifest": needs, "confirmed": {}, "checks": {}, "ran": []}
    try:
        demos = sorted(glob.glob(os.path.join(src, "*_test.go")))
        prog = "--program" in a  # the demonstration is a standalone program: copy *.go into <dest> and `go run` it
        if prog:
            demos = sorted(glob.glob(os.path.join(src, "*.go")))
        if not demos:
            print("no demo *_test.go in", src)
            return 2
        destdir = os.path.join(wt, dest)

        def put_demo():
            os.makedirs(destdir, exist_ok=True)
            for d in demos:
                shutil.copy(d, destdir)

        def del_demo():
            for d in demos:
                try:
                    os.remove(os.path.join(destdir, os.path.basename(d)))
                except FileNotFoundError:
                    pass

        demo_cmd = ("go run ./%s" if prog else "go test -vet=off -count=1 ./%s/") % dest
        put_demo()
        rc, out = sh(demo_cmd, wt)
        meta["confirmed"]["clean_demo_passes"] = rc == 0
        meta["ran"].append("clean tree + demo: go test -vet=off -count=1 ./%s/ -> exit %d" % (dest, rc))
        if rc:
            print("CLEAN DEMO FAILS:\n" + out[-2000:])
        del_demo()
        rc, out = sh("git apply %s" % os.path.join(os.path.abspath(src), "patch.diff"), wt)
        if rc:
            # written against an earlier HEAD (before a fix: commit): fall back to a 3-way merge
            rc, out = sh("git apply --3way %s && git reset -q" % os.path.join(os.path.abspath(src), "patch.diff"), wt)
            meta["ran"].append("patch applied with --3way (it was written against an earlier HEAD)")
        if rc:
            print("patch does not apply:\n" + out)
            return 2
        rc1, out1 = sh("go build ./... ", wt)
        rc2, out2 = sh("go test -vet=off -count=1 ./... 2>&1 | grep -v 'no test files'", wt)
        suite_ok = rc1 == 0 and "FAIL" not in out2
        meta["confirmed"]["patched_builds_and_suite_passes"] = suite_ok
        meta["ran"].append("patched tree: go build ./... -> exit %d; go test -vet=off -count=1 ./... -> %s" % (rc1, "all ok" if suite_ok else "FAILURES"))
        if not suite_ok:
            print("SUITE FAILS WITH PATCH:\n" + out1[-1500:] + out2[-2500:])
        put_demo()
        rc, out = sh(demo_cmd, wt, timeout=900)
        meta["confirmed"]["patched_demo_fails"] = rc != 0
        meta["ran"].append("patched tree + demo: go test -vet=off -count=1 ./%s/ -> exit %d" % (dest, rc))
        if rc == 0:
            print("DEMO DOES NOT FAIL WITH PATCH")
        del_demo()
        ok = all(meta["confirmed"].values())
        print("confirmed:", meta["confirmed"])
        if ok:
            for c in checks:
                t0 = time.time()
                rc, out = sh("VERIF_REPO=%s VERIF_NO_EVIDENCE=1 /verif/check %s %s" % (wt, c, tier), "/verif", env=dict(os.environ), timeout=7200)
                lines = [l for l in out.splitlines() if l.startswith("VIOLATION") or l.startswith("  class=") or l.startswith("check ")]
                caught = rc == 1 and any(l.startswith("VIOLATION property=%s" % c) for l in out.splitlines())
                first = ""
                ol = out.splitlines()
                for i, l in enumerate(ol):
                    if l.startswith("VIOLATION"):
                        first = " | ".join(x.strip() for x in ol[i:i + 3])[:700]
                        break
                meta["checks"]["%s %s" % (c, tier)] = {"exit": rc, "caught": caught, "wall_s": round(time.time() - t0, 1), "first_violation": first}
                meta["ran"].append("VERIF_REPO=<patched worktree> ./check %s %s -> exit %d" % (c, tier, rc))
                print("check %s %s: exit=%d caught=%s %s" % (c, tier, rc, caught, first[:300]))
                if rc not in (0, 1):
                    print(out[-3000:])
        dst = os.path.join("/verif/seeded", sid)
        os.makedirs(dst, exist_ok=True)
        shutil.copy(os.path.join(src, "patch.diff"), dst)
        for d in demos:
            shutil.copy(d, os.path.join(dst, os.path.basename(d) + ".txt"))
        if os.path.exists(os.path.join(src, "README.md")):
            shutil.copy(os.path.join(src, "README.md"), dst)
        meta["demo_package_dir"] = dest
        meta["demo_files"] = [os.path.basename(d) + ".txt (copy into %s/ without the .txt suffix)" % dest for d in demos]
        old = {}
        mp = os.path.join(dst, "meta.json")
        if os.path.exists(mp):
            old = json.load(open(mp))
            oc = old.get("checks", {})
            oc.update(meta["checks"])
            meta["checks"] = oc
            if not needs:
                meta["needs_to_manifest"] = old.get("needs_to_manifest", "")
        json.dump(meta, open(mp, "w"), indent=1)
        return 0 if ok else 3
    finally:
        sh("git -C /repo worktree remove --force %s" % wt, "/")


if __name__ == "__main__":
    sys.exit(main())
