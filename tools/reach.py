#!/usr/bin/env python3
"""Statement reach of the simulation inside the repository's own code (a measurement, not a check).

  tools/reach.py [seconds-per-scenario, default 30] [--uncovered]

Builds the harness with -cover -coverpkg=<repo module>/... from a scratch worktree of /repo (cover cannot instrument
files that exist only in a -overlay, so the tagged hook files are copied into the scratch worktree), runs every
scenario as one worker for the given time, collects the counters of the workers and of their C19 child processes, and
prints per file of /repo how many statements at least one scenario executed. The scratch worktree and all build output
are removed afterwards. Nothing here decides a property; a file stuck at a low figure says where the workloads or the
fault mix have to change.
"""
import collections, glob, json, os, shutil, subprocess, sys

HERE = os.path.dirname(os.path.dirname(os.path.abspath(__file__)))
GO = "go1.26.8"
ENV = dict(os.environ, GOFLAGS="-mod=mod", GOPROXY="off", GOSUMDB="off", GOTOOLCHAIN="local")
MOD = "github.com/transparency-dev/witness/"
SCEN = ["C%02d" % i for i in range(1, 21)] + ["C10e2e", "C05long"]


def sh(cmd, **kw):
    return subprocess.run(cmd, shell=True, env=kw.pop("env", ENV), stdout=subprocess.PIPE, stderr=subprocess.STDOUT, text=True, **kw)


def main():
    secs = 30
    for a in sys.argv[1:]:
        if a.isdigit():
            secs = int(a)
    work = "/tmp/reach-%d" % os.getpid()
    wt = work + "/wt"
    os.makedirs(work + "/prof")
    os.makedirs(work + "/child")
    os.makedirs(work + "/out")
    try:
        p = sh("%s/check build dev" % HERE, cwd=HERE)
        if p.returncode:
            print(p.stdout[-3000:])
            return 2
        p = sh("git -C /repo worktree add -q --detach %s HEAD && git -C /repo diff HEAD | git -C %s apply --allow-empty" % (wt, wt))
        if p.returncode:
            print(p.stdout)
            return 2
        ov = json.load(open(HERE + "/build/dev/overlay.json"))["Replace"]
        rest = {}
        for dst, src in ov.items():
            if dst.startswith("/repo/"):
                shutil.copy(src, wt + "/" + dst[len("/repo/"):])
            else:
                rest[dst] = src
        json.dump({"Replace": rest}, open(work + "/overlay.json", "w"))
        open(work + "/go.mod", "w").write(open(HERE + "/sim/go.mod").read().replace("=> /repo", "=> " + wt))
        shutil.copy(HERE + "/sim/go.sum", work + "/go.sum")
        q = sh("%s list -modfile=%s/go.mod -m -f '{{.Dir}}' github.com/mattn/go-sqlite3" % (GO, work), cwd=HERE + "/sim")
        sq = q.stdout.strip().splitlines()[-1]
        p = sh("%s test -c -cover -coverpkg=%s... -modfile=%s/go.mod -tags verif -vet=off -overlay %s/overlay.json -o %s/sim.test ." % (GO, MOD, work, work, work),
               cwd=HERE + "/sim", env=dict(ENV, CGO_CFLAGS="-I" + sq + " -g -O2"))
        if p.returncode:
            print(p.stdout[-3000:])
            return 2
        procs = []
        for s in SCEN:
            env = dict(ENV, VERIF_KNOWN=HERE + "/known_findings.json", VERIF_BIN=work + "/sim.test", VERIF_HERE=HERE, VERIF_REPO_DIR=wt,
                       VERIF_OMNI_BIN=HERE + "/build/dev/omniwitness", VERIF_PROP=s, VERIF_OUT="%s/out/w-%s.json" % (work, s),
                       VERIF_REPLAY_DIR=work + "/out/replays", VERIF_BUDGET_MS=str(secs * 1000), VERIF_CHILD_COVERDIR=work + "/child")
            procs.append(subprocess.Popen([work + "/sim.test", "-test.run", "^TestWorker$", "-test.cpu", "1", "-test.timeout", "2h",
                                           "-test.coverprofile=%s/prof/%s.out" % (work, s)], env=env, stdout=subprocess.DEVNULL, stderr=subprocess.DEVNULL))
        for pr in procs:
            pr.wait()
        if glob.glob(work + "/child/cov*"):
            sh("%s tool covdata textfmt -i=%s/child -o=%s/prof/children.out" % (GO, work, work))
        hit = {}
        for f in glob.glob(work + "/prof/*.out"):
            for line in open(f):
                if line.startswith("mode:"):
                    continue
                k, ns, c = line.rsplit(" ", 2)
                if "/verifsim/" in k or "zz_verif" in k or not k.startswith(MOD):
                    continue
                o = hit.get(k, (int(ns), 0))
                hit[k] = (int(ns), o[1] or int(c))
        byfile = collections.defaultdict(lambda: [0, 0])
        for k, (ns, h) in hit.items():
            fn = k.split(":")[0][len(MOD):]
            byfile[fn][0] += ns
            byfile[fn][1] += ns if h else 0
        T = H = 0
        for fn, (t, h) in sorted(byfile.items()):
            print("%-56s %4d/%4d %3d%%" % (fn, h, t, 100 * h // max(t, 1)))
            T += t
            H += h
        print("%-56s %4d/%4d %3d%%   (%d s per scenario, %d scenarios)" % ("TOTAL", H, T, 100 * H // max(T, 1), secs, len(SCEN)))
        if "--uncovered" in sys.argv:
            for k in sorted(hit, key=lambda k: (k.split(":")[0], int(k.split(":")[1].split(".")[0]))):
                if not hit[k][1]:
                    print("  never executed:", k[len(MOD):])
        return 0
    finally:
        sh("git -C /repo worktree remove --force %s; git -C /repo worktree prune" % wt)
        shutil.rmtree(work, ignore_errors=True)


if __name__ == "__main__":
    sys.exit(main())
