#!/usr/bin/env python3
import json, glob, os
rows=[]
for mp in sorted(glob.glob('/verif/seeded/*/meta.json')):
    m=json.load(open(mp))
    readme=os.path.join(os.path.dirname(mp),'README.md')
    title=''
    if os.path.exists(readme):
        for l in open(readme):
            if l.strip().startswith('#'):
                title=l.strip('# \n'); break
    caught=[k for k,v in m['checks'].items() if v.get('caught')]
    missed=[k for k,v in m['checks'].items() if not v.get('caught')]
    rows.append((m['id'],m['property'],title,', '.join(caught),', '.join(missed), all(m['confirmed'].values())))
out=['# Seeded changes','',
 'Each directory holds a change to transparency-dev/witness written by an independent sub-agent that saw only the text of one property and its own scratch worktree: `patch.diff`, the demonstration (`*_test.go.txt`; copy into the package named in `meta.json` without the `.txt`), the agent\'s `README.md`, and `meta.json` (what it needs to manifest, what was run, which checks caught it). Every change was confirmed here in a fresh scratch worktree (clean tree: demonstration passes; patched: `go build ./...` and the pinned suite pass, the demonstration fails) before any check was run against it (`tools/seed.py`). None of them is ever applied to /repo.','',
 '"caught by" lists the check runs (quick tier, VERIF_SEED=1) that exited 1 with a VIOLATION line for that change; where a change was first missed, the check was strengthened (see DESIGN.md 12.4) and re-run - the table shows the state after that.','',
 '| id | property | change | confirmed | caught by | not caught by |','|---|---|---|---|---|---|']
for r in rows:
    out.append('| %s | %s | %s | %s | %s | %s |'%(r[0],r[1],r[2][:110].replace('|','/'),'yes' if r[5] else 'NO',r[3],r[4]))
open('/verif/seeded/README.md','w').write('\n'.join(out)+'\n')
print('\n'.join(out[-42:]))
