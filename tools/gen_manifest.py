#!/usr/bin/env python3
"""Regenerates /verif/MANIFEST.json from the table below (kept in one place so it stays valid)."""
import json, os, sys

HERE = os.path.dirname(os.path.dirname(os.path.abspath(__file__)))
ENGINE_W = "engine-w"
ENGINE_NET = "engine-net"
ENGINE_CRASH = "engine-crash"

# id: (engine, level, technique, text, note, design_ref)
CHECKS = {}


def add(pid, engine, level, technique, text, note, ref):
    CHECKS[pid] = dict(engine=engine, level=level, technique=technique, text=text, note=note, ref=ref)


BASE_NOTE = ("Trusted base: the harness's own RFC 6962 tree / RFC 9162 verifier / signed-note code (written from the specs, cross-checked in selftest), "
             "Go 1.26.8 testing/synctest fake clock, the seeded scheduler; sampling, not enumeration, unless the evidence says exhaustive.")

add("C01", ENGINE_W, "exploration", "deterministic simulation: seeded adversarial histories + seeded schedules + fail-stop storage faults, ground-truth leaf oracle",
    "Seeded search over histories of update requests (forks of every branch, wrong old sizes, forged/padded/truncated/replayed proofs, byte-level forgeries), sequential, concurrent under the seeded quiescence scheduler, and with fail-stop storage faults, on the real witness over both stores; oracle = ground-truth leaf comparison of consecutive accepted checkpoints in commit order, of the checkpoints handed out (pairwise, order-free, when requests overlap) and of what is served. Evidence, not proof.",
    BASE_NOTE, "DESIGN.md 5/C01")
add("C03", ENGINE_W, "exploration", "deterministic simulation: seeded histories + fail-stop storage faults, before/after side snapshots",
    "Every refused update (all refusal classes incl. injected storage failures) in seeded histories is bracketed by byte-level snapshots of every log and the log list taken through a fault-free second handle on the same store; returned bytes must be empty or the stored checkpoint and never carry a witness signature over the refused text.",
    BASE_NOTE, "DESIGN.md 5/C03")
add("C09", ENGINE_W, "exploration", "refinement against an executable reference model (sequential), exhaustive small cube in the thorough tier",
    "Operation-by-operation refinement of Witness.Update against the decision-table model; thorough enumerates the whole 0..17 cube x root x proof-kind space on fresh witnesses and then samples sizes to 2^63; schedule/fault dimensions are inert by design (weakest fit of the technique, said so in DESIGN.md).",
    BASE_NOTE, "DESIGN.md 5/C09")
add("C20", ENGINE_W, "exploration", "deterministic simulation: conservation law over recorded histories (sequential, concurrent, faulty)",
    "A recording metric factory observes seeded histories in sequential, concurrent (seeded scheduler) and fail-stop-fault batches; per run and log the four counters must equal the counts of actual outcomes, so a counter moved before the write or on a wrong path shows up when a Set fails or loses a race. Batches through the adapter (identical requests in flight, storage faults) and through the bastion endpoint. Both tiers end with a free-running run under the race detector (4 x 8 s quick, 4 x 60 s thorough) in which the production Prometheus backend must agree, per label and in both directions (no label with increments lacks a series), with the recording factory, over up to 48 log IDs per process (sound, not seed-replayable).",
    BASE_NOTE, "DESIGN.md 5/C20, 12.5")

add("C02", ENGINE_W, "exploration", "deterministic simulation: byzantine mutators over signed checkpoints, multi-log shared-key configurations, seeded races; authenticity invariant after every step",
    "Seeded byzantine submissions (bit flips, truncations, line and signature-block edits, origin rewrites, key-hash forgeries, a text/signature boundary moved on a pair the witness has verified before, cross-log replays under shared keys, different keys under one key name, unknown IDs; the log map is built from YAML as the shipped file is, with and without PublicKeyType lines), sequential and racing a valid submission under the seeded scheduler; one-sided invariant: whatever is stored or returned for an ID is a text the harness signed with that ID's key under that ID's origin, and unknown IDs never reach storage.",
    BASE_NOTE + " Ed25519 unforgeability.", "DESIGN.md 5/C02")
add("C04", ENGINE_W, "exploration", "deterministic simulation: fake clock jumps between and inside updates, harness note verifier",
    "Seeded first-use/growth/refresh histories with 1..3 witness keys, decorated notes, and clock jumps of 1 ms..30 days between updates and while an update is parked at a storage seam; every accepted result and read is verified with the harness's own note/cosignature code, timestamps against the call window on the fake clock, and the read right after an accepted update must return the same bytes.",
    BASE_NOTE, "DESIGN.md 5/C04")
add("C05", ENGINE_W, "exploration", "deterministic simulation: seeded schedules at storage-operation granularity + porcupine linearizability + commit-sequence invariants",
    "2..4 clients race updates and reads on the real witness over the in-memory store and single-connection SQLite; the seeded scheduler (uniform, PCT, hold-one) owns every interleaving; histories stamped with event numbers are checked by porcupine against the sequential model and by direct invariants on the commit order. Canonical 2-client shapes are sampled until their interleavings are (nearly) all reached and the count is reported.",
    BASE_NOTE + " porcupine v1.3.0; Unknown results are counted as inconclusive, never reported.", "DESIGN.md 5/C05")
add("C08", ENGINE_W, "exploration", "deterministic simulation: adversarial prior histories then honest probes (bounded liveness: progress in one step)",
    "After arbitrary generated histories (refused forgeries, decorations up to and beyond the note format's line limit, size-0 first checkpoints) an honest log's next step must be accepted at once. Two genuine defects (F1, F2) are listed in known_findings.json by their specific signatures; any other refusal of an honest probe is a VIOLATION.",
    BASE_NOTE, "DESIGN.md 5/C08, 6")
add("C12", ENGINE_W, "exploration", "deterministic simulation: seeded interleaving of per-log histories vs each history replayed alone (differential), config loader check",
    "Per-log histories over 2..5 logs (shared keys, cross-log replays) are interleaved by the seeded scheduler at storage-operation granularity and each is replayed alone in a fresh world; verdict sequences and final bytes must agree per log; duplicate-origin configurations must be refused by the real loader and by the real omniwitness.Main started on them in a bubble. The cross-component ID agreement is exercised by the Main-level, bastion and distributor checks.",
    BASE_NOTE, "DESIGN.md 5/C12")

add("C06", ENGINE_CRASH, "fault_enumeration", "deterministic fault enumeration: real SIGKILL of a child process at every database-driver boundary and every numbered SQLite VFS operation (clean and torn), reopen, recovery + behavioural oracle",
    "For each seeded history every kill point of the stated kinds is executed: the child process running the real witness on file-backed SQLite kills itself before/after each driver operation and at each VFS write/sync/truncate/delete (clean or torn); a fresh handle reopens the store and checks old-or-new, valid cosignatures, integrity, the log list and the acknowledgements; the history continues (sometimes into a second kill) and the restarted witness must refuse forks and accept the honest next step. A quarter of the histories run on a WAL-mode store (--db_file=<path>?_journal_mode=WAL), a third with driver-level errors short of a crash.",
    "Process kill, not power loss (page cache survives; unsynced-write reordering not modelled). The statements with which cmd/omniwitness/monolith.go opens --db_file are copied into the crash child at build time (static fallback: sql.Open + SetMaxOpenConns(1)); main() itself is run only for restarts (the real binary). " + BASE_NOTE, "DESIGN.md 3.7, 5/C06")
add("C07", ENGINE_W, "fault_enumeration", "deterministic fault enumeration: every single storage-fault position at interface and SQL-driver level per seeded history, sampled multi-fault and SQLite VFS I/O-error windows, fault-free tail, wedge detection by the scheduler",
    "Per seeded history a dry run lists every storage call; every single fault position x error kind is then executed at the interface level (both stores) or the SQL-driver level (SQLite), plus sampled multi-fault patterns and VFS-level IOERR/FULL/short-write windows; each execution ends in a fault-free tail. Oracles: no false success, no change on failure, no TOFU on a failing read, tail builds on the last committed state, no wedge / leaked handle / connection in use.",
    "Injected faults are fail-stop and limited to what the real stores can do. " + BASE_NOTE, "DESIGN.md 3.6, 5/C07")

ENGINE_NET = "engine-net"
add("C13", ENGINE_NET, "fault_enumeration", "deterministic fault enumeration on the fake clock: every distribution of 0..4 transient failures over get-latest/fetch-proof/update, cancellation at every call and backoff sleep, recording witness (stub and real)",
    "FeedOnce runs on the synctest fake clock against a recording witness (stub, or the real witness through the real witnessAdapter, optionally with a competing writer) and a harness log party; per seeded shape all 121 failure patterns and all cancellation points are executed and the recorded calls are checked per attempt; one polling run per real-witness shape drives the real Rekor feeder (rekor.FeedLog) against a Rekor stub on the simulated network while a competing writer moves the witness.",
    BASE_NOTE, "DESIGN.md 5/C13")

add("C15", ENGINE_NET, "exploration", "deterministic simulation: seeded witness answers x seeded network faults (drop, status, redirect, truncation, stall past the client timeout on the fake clock), oracle on the stub distributor's request log",
    "DistributeOnce over 1..6 logs with every class of witness answer and distributor answer (200, other 2xx, fifteen 4xx/5xx codes incl. 429, transport errors, redirects and loops, truncation, stalls), witness names that need escaping; a PUT must be sent iff the answer is valid, with the unmodified bytes, to the path naming that log's ID and the witness name; every log is attempted; the error reports the failures.",
    BASE_NOTE, "DESIGN.md 5/C15")
add("C16", ENGINE_W, "exploration", "deterministic simulation: Engine-W histories with reads through the real router and the bundled client over simnet, odd IDs, transport faults, reads racing updates under the seeded scheduler",
    "After every step of seeded histories on both stores, GETs through the registered mux router and through client/http over simnet for known, unknown and syntactically odd IDs, with transport faults on client lookups and, in a concurrent batch, reads racing updates held mid-transaction; 200 + exactly the stored bytes / 404, never another log's checkpoint; client maps to bytes / os.ErrNotExist / error; log list = logs with an accepted update.",
    BASE_NOTE, "DESIGN.md 5/C16")
add("C18", ENGINE_NET, "exploration", "deterministic simulation: real SumDB client and feeder against a stub SumDB served from the reference tree over simnet; exhaustive size pairs <= 1200 in the thorough tier; network faults",
    "Paths requested by the real client are compared with tlog.Tile.Path at a recording stub; the real sumdb.FeedLog builds proofs from tiles served from the reference tree for all pairs 1<=from<to<=1200 (thorough) and sampled pairs to 2^20, each checked by the reference verifier and a real witness; under tile/checkpoint faults nothing the reference verifier rejects may be accepted and the cycle must end.",
    BASE_NOTE + " x/mod tlog.Tile.Path is the named reference for paths.", "DESIGN.md 5/C18")

add("C10", ENGINE_NET, "exploration", "deterministic simulation: real handler + real witness in a synctest bubble, seeded request sequences at seeded instants (bursts, silences), status table from the sequential model, token-bucket bound on the fake clock",
    "The real add-checkpoint handler (via the add-only overlay constructor) behind the 16 KiB cap and in front of the real witness on both stores answers seeded sequences of well-formed requests of every verdict class, malformed bodies and unlisted origins issued at seeded simulated instants; statuses, the stale-size body, the cosignature body and the rate limiter (429 => not processed; any-token-bucket upper bound; service after silence) are checked. A second, clearly labelled half runs the real FeedBastion end to end over loopback TLS 1.3 + HTTP/2 against a stub bastion in REAL time (sequential script incl. a body beyond the 16 KiB cap, a dropped connection and reconnect); that half is not schedule-controlled and replays as a request script (DESIGN.md 3.9).",
    BASE_NOTE, "DESIGN.md 5/C10")
add("C11", ENGINE_NET, "exploration", "deterministic simulation: stream faults (every truncation and read-error offset before the separator, seeded chunking) on generated bodies through the real handler to a recording witness",
    "Generated bodies are delivered to the real handler through a reader that chunks, ends or fails at every byte offset before the separator; intact => the recording witness received exactly what was written; cut/malformed => 400 and no call. The Proof text round trip is asserted on the same data (no fault dimension; carried along).",
    BASE_NOTE, "DESIGN.md 5/C11")

add("C14", ENGINE_NET, "exploration", "deterministic simulation: the real omniwitness.Main in a synctest bubble (fake clock, tickers, timeouts, backoff), stub logs over the reference tree, class-keyed seeded network faults, graceful restarts on SQLite, forks; bounded liveness in poll intervals",
    "Main runs with 1..4 stub logs (sumdb, tiles), in-memory or SQLite storage, the real http.Server on an in-memory listener; seeded scripts of growth across tile boundaries, growth under fault windows, restarts and a final fork; through HTTP GET the served checkpoint must catch up within 3 poll intervals once faults stop, be validly cosigned, never move backwards across restarts, and stay on the witnessed history after a fork.",
    BASE_NOTE + " Feeder goroutines are not individually scheduled in this world; faults are keyed by request class and occurrence.", "DESIGN.md 5/C14")
add("C17", ENGINE_NET, "exploration", "finite enumeration by simulated boot: the real Main on each shipped configuration file against nine hostile networks for 10 simulated minutes, plus the loaders Main uses",
    "Both shipped files are loaded through the functions Main uses (keys parse, IDs distinct, feeder types known, URLs well-formed, rekor treeID present, map and list agree) and Main is booted on each against nine hostile networks for 10 simulated minutes: it must neither return nor panic and each feeder must issue its first request to its configured host; it is then stopped and booted once more in the same process. Weak fit for the technique (a finite configuration); decided by running the system, exhaustive over entries.",
    BASE_NOTE, "DESIGN.md 5/C17")
add("C19", ENGINE_NET, "exploration", "deterministic simulation with byzantine peers: seeded structure-aware mutation of requests through a faulty reader; each feeder/distributor cycle in a child-process bubble under a wall-clock watchdog against hostile log-signed checkpoints and faulty responses",
    "Mutated and random bodies (to 40 KB) are streamed to the real endpoint (no panic, documented status); one cycle of each real feeder and of the distributor runs in a watchdogged child bubble against peers with log-signed hostile sizes/roots and faulty responses and must end with a result or an error. One genuine defect (F4: sizes in [2^62,2^63) spin in x/mod tlog.ProveTree via the SumDB and Pixel feeders) is listed by signature; any other hang or panic is a VIOLATION.",
    BASE_NOTE + " Not coverage-guided.", "DESIGN.md 5/C19, 6")

NOT_YET = {}


def main():
    props = [json.loads(l) for l in open(os.path.join(HERE, "properties.jsonl"))]
    checks = []
    na = []
    for p in props:
        pid = p["id"]
        if pid in CHECKS:
            c = CHECKS[pid]
            checks.append({
                "property_id": pid,
                "quick_cmd": "./check %s quick" % pid,
                "thorough_cmd": "./check %s thorough" % pid,
                "evidence_file": "/verif/evidence/%s.json" % pid,
                "replay_cmd_template": "./check %s --replay {path}" % pid,
                "engine": c["engine"],
                "level_claimed": {"category": c["level"], "text": c["text"], "design_ref": c["ref"]},
                "level_note": c["note"],
                "technique": c["technique"],
            })
        else:
            na.append({"property_id": pid, "reason": NOT_YET.get(pid, "check not built yet (work in progress; see DESIGN.md section 5 for the plan)")})
    m = {
        "version": 1,
        "setup_cmd": "./check build",
        "hooks": {
            "guard": "verif",
            "enable": "go1.26.8 test -c -tags verif -overlay <generated>: four add-only //go:build verif files from /verif/hooks are overlaid at build time (internal/feeder/bastion/zz_verif_export.go: handler constructor and an exported alias of parseBody; omniwitness/zz_verif_export.go: witnessAdapter constructor - for these two the constructor expressions are first copied from the tree under test, the files in hooks/ are the fallback; cmd/feedbastion/zz_verif_writer_test.go: writer-side test for C11 in package main; omniwitness/zz_verif_shipped32_test.go: C17 on a GOARCH=386 build); in addition the harness file sim/zz_prodopen.go is overlaid by a copy of the statements with which cmd/omniwitness/monolith.go opens --db_file, so that crash children open their store as production does; nothing in /repo is edited for instrumentation; source_commits is empty (the commits in /repo are fix: commits, unguarded by design)",
            "baseline_off_cmd": "cd /repo && go test -vet=off -count=1 ./...",
            "source_commits": [],
            "add_only": True,
        },
        "engines": [
            {"name": ENGINE_W, "path": "/verif/sim", "serves_properties": sorted(k for k, v in CHECKS.items() if v["engine"] == ENGINE_W),
             "kind_free_text": "real witness + real stores (in-memory, file-backed SQLite) behind a storage seam, harness clients, seeded quiescence scheduler, synctest fake clock, reference tree/model oracles"},
            {"name": ENGINE_NET, "path": "/verif/sim", "serves_properties": sorted(k for k, v in CHECKS.items() if v["engine"] == ENGINE_NET),
             "kind_free_text": "real feeders / distributor / HTTP handlers / client / omniwitness.Main inside a synctest bubble, simnet RoundTripper and in-memory listener as the only network, stub logs and distributor served from the reference tree, seeded network and storage faults"},
            {"name": ENGINE_CRASH, "path": "/verif/sim", "serves_properties": sorted(k for k, v in CHECKS.items() if v["engine"] == ENGINE_CRASH),
             "kind_free_text": "child processes of the same test binary running the real witness on file-backed SQLite under a wrapping database/sql driver and a shim SQLite VFS; real SIGKILL at numbered operations; parent reopens and checks"},
        ],
        "checks": checks,
        "not_applicable": na,
        "notes": "All checks: ./check <ID> quick|thorough (python3 driver, Go 1.26.8 test binary rebuilt from /repo's working tree on every run). Exit 0/1/2 as in DESIGN.md 3.10. Known findings: /verif/known_findings.json.",
    }
    if not na:
        del m["not_applicable"]
    json.dump(m, open(os.path.join(HERE, "MANIFEST.json"), "w"), indent=1)
    print("MANIFEST.json: %d checks, %d not claimed" % (len(checks), len(na)))


if __name__ == "__main__":
    main()
