#!/usr/bin/env python3
"""Re-run, for every seeded change, the checks that are recorded as catching it (quick tier) against a scratch worktree with
the change applied, and report the ones that are no longer caught. Usage: tools/recheck_seeded.py [id-prefix | id= ...]
(an argument ending in "=" names exactly one change)"""
import json, glob, os, subprocess, sys, time

ENV = dict(os.environ, GOFLAGS="-mod=mod", GOPROXY="off", GOSUMDB="off")


def sh(cmd, cwd="/", env=ENV, timeout=3600):
    p = subprocess.run(cmd, cwd=cwd, env=env, shell=True, stdout=subprocess.PIPE, stderr=subprocess.STDOUT, text=True, timeout=timeout)
    return p.returncode, p.stdout


def main():
    pre = sys.argv[1:]
    lost = []
    for mp in sorted(glob.glob("/verif/seeded/*/meta.json")):
        m = json.load(open(mp))
        sid = m["id"]
        if pre and not any(sid.startswith(x) or (x.endswith("=") and sid == x[:-1]) for x in pre):
            continue
        want = [k.split()[0] for k, v in m["checks"].items() if v.get("caught")]
        if not want:
            continue
        wt = "/tmp/recheck-%d" % os.getpid()
        sh("git -C /repo worktree remove --force %s" % wt)
        rc, out = sh("git -C /repo worktree add -q --detach %s HEAD" % wt)
        patch = os.path.join(os.path.dirname(mp), "patch.diff")
        rc, out = sh("git apply %s || (git apply --3way %s && git reset -q)" % (patch, patch), wt)
        if rc:
            print("%s: patch does not apply" % sid, flush=True)
            sh("git -C /repo worktree remove --force %s" % wt)
            continue
        res = {}
        for c in want:
            t0 = time.time()
            rc, out = sh("VERIF_REPO=%s VERIF_NO_EVIDENCE=1 /verif/check %s quick" % (wt, c), "/verif", env=dict(os.environ))
            res[c] = (rc == 1 and ("VIOLATION property=%s" % c) in out)
            if rc not in (0, 1):
                print("%s: check %s exit %d: %s" % (sid, c, rc, out[-400:].replace("\n", " | ")), flush=True)
        sh("git -C /repo worktree remove --force %s" % wt)
        m["recheck"] = {"when": time.strftime("%Y-%m-%d %H:%M"), "caught": res}
        json.dump(m, open(mp, "w"), indent=1)
        bad = [c for c, ok in res.items() if not ok]
        print("%s: %s" % (sid, "ok " + ",".join(res) if not bad else "NO LONGER CAUGHT by " + ",".join(bad)), flush=True)
        if bad:
            lost.append((sid, bad))
    print("lost:", lost)


if __name__ == "__main__":
    main()
