package verifsim

import "fmt"

// Profile steers the Engine-W history generator (swarm style: each run draws
// its own mix).
type Profile struct {
	MaxLogs     int
	ShareKeys   bool
	MinOps      int
	MaxOps      int
	Adversarial float64 // fraction of update ops that are not plain honest steps
	Mutations   float64 // of the adversarial ones: byte/signature level attacks
	BigSizes    bool
	Reads       float64
	Stores      []string
	WitKeySets  [][]string
}

var defaultWitKeySets = [][]string{
	{"ed:0", "cosig:0"}, // production: both forms of one key
	{"cosig:0"},
	{"ed:0"},
	{"ed:0", "cosig:1", "cosig:2"},
	{"cosig:0", "cosig:1"},
}

func genConfig(r *Rng, pf Profile) Config {
	cfg := Config{Seam: "none", Clients: 1}
	stores := pf.Stores
	if len(stores) == 0 {
		stores = []string{"mem", "mem", "sqlite"}
	}
	cfg.Store = Pick(r, stores...)
	cfg.Dense = Pick(r, uint64(16), 256, 1024)
	n := r.Range(1, max(1, pf.MaxLogs))
	keyOf := 0
	for i := 0; i < n; i++ {
		lc := LogCfg{Origin: fmt.Sprintf("sim.example/log%d", i), Key: keyOf}
		if i+1 < n && !(pf.ShareKeys && r.Chance(0.4)) {
			keyOf++
		}
		// 1..3 extra branches
		nb := r.Range(1, 3)
		for b := 0; b < nb; b++ {
			at := uint64(r.IntN(12))
			switch r.IntN(6) {
			case 0:
				at = 0
			case 1:
				at = uint64(r.IntN(70))
			case 2:
				if pf.BigSizes {
					at = uint64(1)<<uint(r.Range(10, 40)) + uint64(r.IntN(3)) - 1
				}
			}
			lc.Forks = append(lc.Forks, ForkCfg{Parent: r.IntN(b + 1), At: at})
		}
		cfg.Logs = append(cfg.Logs, lc)
	}
	ks := pf.WitKeySets
	if len(ks) == 0 {
		ks = defaultWitKeySets
	}
	cfg.WitKeys = ks[r.IntN(len(ks))]
	return cfg
}

func genDelta(r *Rng, big bool) uint64 {
	switch r.Weighted(30, 30, 15, 5, 3) {
	case 0:
		return uint64(r.Range(1, 3))
	case 1:
		return uint64(r.Range(1, 20))
	case 2:
		return uint64(r.Range(1, 300))
	case 3:
		if big {
			return uint64(1) << uint(r.Range(10, 17))
		}
		return uint64(r.Range(1, 70))
	default:
		if big {
			return (uint64(1) << uint(r.Range(20, 61))) + uint64(r.IntN(5))
		}
		return uint64(r.Range(1, 70))
	}
}

var oldSelectors = []string{"cur", "zero", "sub", "sub+1", "cur+1", "cur-1", "abs", "max", "2^63"}
var proofSelectors = []string{"honest", "empty", "honest_old", "trunk", "othersizes", "flip", "drop", "add", "addfront", "dup", "swap", "badlen", "random", "roots", "nil", "prepend_old_root", "append_new_root", "prepend_new_root", "append_old_root", "long", "honest_padded"}
var sigMutations = []string{"wrongkey", "wrongkey_samename", "forgedhash", "nosig", "badsig", "flipbody", "trunc", "bytes", "otherorigin", "origin_prefix", "origin_bare", "origin_case", "origin_ws", "trailing_nl", "crosslog", "unknownlog", "splice_sig"}
var decorations = []string{"ext", "xsig_unknown", "xsig_unknown_first", "xsig_otherlog", "xsig_dup", "stale_wit", "fake_wit"}

// genUpdate draws one update op for log l with nb branches.
func genUpdate(r *Rng, pf Profile, l, nb int) Op {
	op := Op{K: "update", L: l}
	if !r.Chance(pf.Adversarial) {
		// honest step or refresh on the trunk
		if r.Chance(0.2) {
			op.D = 0
		} else {
			op.D = genDelta(r, pf.BigSizes)
		}
		if r.Chance(0.15) {
			op.M = Pick(r, decorations...)
			op.MV = r.Uint64()
			if op.M == "xsig_unknown" {
				op.MV = uint64(r.Range(1, 6))
				if r.Chance(0.25) {
					op.MV = uint64(r.Range(94, 101)) // around the note format's limit of 100 signature lines
				}
			}
		}
		return op
	}
	if r.Chance(pf.Mutations) {
		op.M = Pick(r, sigMutations...)
		op.MV = r.Uint64()
		op.D = uint64(r.Range(0, 5))
		if r.Chance(0.3) {
			op.B = r.IntN(nb)
		}
		return op
	}
	// protocol-level attack: choose branch, size, old and proof adversarially
	op.B = r.IntN(nb)
	switch r.Weighted(30, 25, 10, 10, 5) {
	case 0:
		op.D = genDelta(r, pf.BigSizes)
	case 1:
		op.D = 0
	case 2:
		op.Sz, op.D = "back", uint64(r.Range(1, 5))
	case 3:
		op.Sz, op.D = "abs", uint64(r.IntN(20))
	default:
		op.Sz = "abs"
		op.D = Pick(r, uint64(0), 1, 1<<62, 1<<63, maxU64, 1<<40)
		if !pf.BigSizes {
			op.D = uint64(r.IntN(3))
		}
	}
	if r.Chance(0.5) {
		op.Old = Pick(r, oldSelectors...)
		if op.Old == "abs" {
			op.OldV = uint64(r.IntN(40))
			if r.Chance(0.2) {
				op.OldV = r.Uint64()
			}
		}
	}
	if r.Chance(0.7) {
		op.P = Pick(r, proofSelectors...)
		op.PV = r.Uint64()
	}
	if r.Chance(0.12) {
		op.M = Pick(r, "garbage_root", "ext", "stale_wit")
		op.MV = r.Uint64()
	} else if r.Chance(0.05) {
		// requests of every class may come with as many signature lines as the note format allows: what cannot be cosigned
		// must still be answered by the rule that applies
		op.M, op.MV = "xsig_unknown", uint64(r.Range(96, 100))
	}
	return op
}

func genHistory(r *Rng, pf Profile, cfg *Config) []Op {
	n := r.Range(pf.MinOps, pf.MaxOps)
	ops := make([]Op, 0, n)
	for i := 0; i < n; i++ {
		l := r.IntN(len(cfg.Logs))
		nb := len(cfg.Logs[l].Forks) + 1
		if r.Chance(pf.Reads) {
			if r.Chance(0.2) {
				ops = append(ops, Op{K: "list"})
			} else {
				ops = append(ops, Op{K: "read", L: l})
			}
			continue
		}
		if pf.Mutations > 0 && len(cfg.Logs) > 1 && r.Chance(0.03) {
			// a two-step forgery: log l's next text signed by another configured log's key and submitted to that log (refused for its
			// origin), then the same text and signature bytes relabelled with l's key name and ID and submitted to l
			d := uint64(r.Range(0, 4))
			ops = append(ops, Op{K: "update", L: l, D: d, M: "prime_other"}, Op{K: "update", L: l, D: d, M: "forgedhash", MV: 2 * r.Uint64N(1000)})
			i++
			continue
		}
		if pf.Mutations > 0 && r.Chance(0.04) {
			// a two-step forgery: an honest checkpoint with extension lines (accepted, so the witness has verified that text and
			// signature), then the same signature bytes under a text cut short, the cut-off lines moved into the signature
			ops = append(ops, Op{K: "update", L: l, D: uint64(r.Range(0, 4)), M: "ext", MV: r.Uint64()}, Op{K: "update", L: l, M: "splice_sig", MV: 4 * r.Uint64N(1000)})
			i++
			continue
		}
		if pf.BigSizes && r.Chance(0.04) {
			// sizes beyond 2^63 (any log can sign them) followed by a tiny size claimed to extend them: arithmetic on
			// the difference of two sizes must not wrap
			big := Pick(r, uint64(1)<<63, uint64(1)<<63+5, maxU64, maxU64-1, uint64(1)<<63-1)
			ops = append(ops, Op{K: "update", L: l, Sz: "abs", D: big, Old: Pick(r, "cur", "zero"), P: "empty", M: "garbage_root", MV: 5 * r.Uint64N(1000)})
			ops = append(ops, Op{K: "update", L: l, Sz: "abs", D: uint64(r.IntN(6)), Old: "cur", P: Pick(r, "empty", "random"), PV: r.Uint64(), M: Pick(r, "", "garbage_root"), MV: 5 * r.Uint64N(1000)})
			i++
			continue
		}
		ops = append(ops, genUpdate(r, pf, l, nb))
	}
	return ops
}

func genTape(r *Rng, n int) []uint32 {
	t := make([]uint32, n)
	for i := range t {
		t[i] = r.Uint32()
	}
	return t
}
