package verifsim

// Free-running stress for the second half of C05's quantifier ("randomized many-goroutine schedules under the
// race detector"). Under the seeded scheduler every segment is ordered by a channel hand-off, so the race
// detector can never fire there; this test lets the Go runtime schedule 8..32 goroutines for real (with
// runtime.Gosched at every storage call to shake the interleavings) in a binary built with -race. A race
// report is sound but NOT seed-replayable; the driver reports it with the report text as its artefact.

import (
	"context"
	"database/sql"
	"fmt"
	"os"
	"path/filepath"
	"runtime"
	"strings"
	"sync"
	"sync/atomic"
	"testing"
	"time"

	"github.com/prometheus/client_golang/prometheus"
	"github.com/transparency-dev/witness/internal/persistence"
	"github.com/transparency-dev/witness/internal/persistence/inmemory"
	psql "github.com/transparency-dev/witness/internal/persistence/sql"
	"github.com/transparency-dev/witness/internal/witness"
)

type goschedP struct {
	in   persistence.LogStatePersistence
	mu   *sync.Mutex
	sets *[]SetRec
}

func (g goschedP) Init() error { return g.in.Init() }
func (g goschedP) Logs() ([]string, error) {
	runtime.Gosched()
	return g.in.Logs()
}
func (g goschedP) ReadOps(id string) (persistence.LogStateReadOps, error) {
	runtime.Gosched()
	return g.in.ReadOps(id)
}
func (g goschedP) WriteOps(id string) (persistence.LogStateWriteOps, error) {
	runtime.Gosched()
	w, err := g.in.WriteOps(id)
	if err != nil {
		return nil, err
	}
	return goschedW{w, g, id}, nil
}

type goschedW struct {
	in persistence.LogStateWriteOps
	g  goschedP
	id string
}

func (w goschedW) GetLatest() ([]byte, error) { runtime.Gosched(); return w.in.GetLatest() }
func (w goschedW) Close() error               { runtime.Gosched(); return w.in.Close() }
func (w goschedW) Set(b []byte) error {
	runtime.Gosched()
	// the store serialises writers; recording under the same critical section as the write is not possible from
	// outside, so the order recorded here is only used for per-log monotonicity of sizes, which any order of
	// committed writes must satisfy
	err := w.in.Set(b)
	if err == nil {
		w.g.mu.Lock()
		*w.g.sets = append(*w.g.sets, SetRec{LogID: w.id, Bytes: append([]byte{}, b...)})
		w.g.mu.Unlock()
	}
	return err
}

func TestRaceStress(t *testing.T) {
	if os.Getenv("VERIF_RACE") == "" {
		t.Skip("only run by ./check C05 thorough (built with -race)")
	}
	seed := uint64(envInt("VERIF_SEED", 1))
	budget := time.Duration(envInt("VERIF_BUDGET_MS", 30000)) * time.Millisecond
	start := time.Now()
	rounds, accepted, conflicts, storeRounds := 0, 0, 0, 0
	for round := uint64(0); time.Since(start) < budget; round++ {
		r := NewRng(runSeed(seed, "C05race", round))
		p := &Plan{Seed: r.Uint64(), Cfg: Config{Dense: 64, WitKeys: []string{"ed:0", "cosig:0"}}}
		nl := r.Range(1, 3)
		for i := 0; i < nl; i++ {
			p.Cfg.Logs = append(p.Cfg.Logs, LogCfg{Origin: fmt.Sprintf("sim.example/race%d", (int(round)*3+i)%48), Key: i, Forks: []ForkCfg{{Parent: 0, At: uint64(r.IntN(3))}}})
		}
		w := NewWorld(p)
		var inner persistence.LogStatePersistence
		var db *sql.DB
		dir := ""
		if r.Bool() {
			var err error
			if dir, err = scratchDir("race"); err != nil {
				t.Fatal(err)
			}
			db, err = sql.Open("sqlite3", filepath.Join(dir, "w.db"))
			if err != nil {
				t.Fatal(err)
			}
			db.SetMaxOpenConns(1)
			inner = psql.NewPersistence(db)
		} else {
			inner = inmemory.NewPersistence()
		}
		var mu sync.Mutex
		var sets []SetRec
		known, _ := w.KnownLogs()
		signers, _ := w.Signers()
		wit, err := witness.New(witness.Opts{Persistence: goschedP{in: inner, mu: &mu, sets: &sets}, Signers: signers, KnownLogs: known})
		if err != nil {
			t.Fatal(err)
		}
		ng := r.Range(8, 32)
		gun := make(chan struct{}) // all goroutines of a round start together
		var wg sync.WaitGroup
		var rmu sync.Mutex
		readBad := ""
		for g := 0; g < ng; g++ {
			gr := NewRng(r.Uint64())
			wg.Add(1)
			go func(gr *Rng) {
				defer wg.Done()
				<-gun
				lastSeen := map[string]uint64{}
				for k := 0; k < 6; k++ {
					ld := w.Logs[gr.IntN(len(w.Logs))]
					if gr.Chance(0.3) {
						b, err := wit.GetCheckpoint(ld.ID)
						if err == nil {
							st := parseStored(b)
							if !st.Bad && st.Size < lastSeen[ld.ID] {
								rmu.Lock()
								readBad = fmt.Sprintf("a reader saw log %d at size %d and then at %d", ld.Idx, lastSeen[ld.ID], st.Size)
								rmu.Unlock()
							}
							if !st.Bad {
								lastSeen[ld.ID] = st.Size
							}
						}
						continue
					}
					// read the current state, then submit the next step (or a fork) computed from it
					var st Stored
					if b, err := wit.GetCheckpoint(ld.ID); err == nil {
						st = parseStored(b)
					}
					op := Op{K: "update", L: ld.Idx, D: uint64(gr.Range(0, 4)), B: gr.IntN(2)}
					req := resolveUpdate(w, op, st)
					out, err := wit.Update(context.Background(), req.LogID, req.Old, req.CP, req.Proof)
					rmu.Lock()
					if err == nil {
						accepted++
						_ = out
					} else if classify(err) == "other" {
						conflicts++
					}
					rmu.Unlock()
				}
			}(gr)
		}
		close(gun)
		wg.Wait()
		if readBad != "" {
			t.Fatalf("C05 race stress: %s", readBad)
		}
		// per log, the recorded commit order must be one append-only history
		byLog := map[string][]SetRec{}
		for _, s := range sets {
			byLog[s.LogID] = append(byLog[s.LogID], s)
		}
		for id, seq := range byLog {
			ld := w.LogByID(id)
			// the order recorded above can lag the commit order, so the check is order-free: any two checkpoints
			// ever committed for a log must be compatible in one direction (they lie on one append-only history)
			for i := 0; i < len(seq); i++ {
				for j := i + 1; j < len(seq); j++ {
					a, b := parseStored(seq[i].Bytes), parseStored(seq[j].Bytes)
					ok1, why := w.Compatible(ld.Idx, a.Size, a.Root, b.Size, b.Root)
					ok2, _ := w.Compatible(ld.Idx, b.Size, b.Root, a.Size, a.Root)
					if !ok1 && !ok2 {
						t.Fatalf("C05 race stress: log %d accepted both {%s} and {%s} (%s)", ld.Idx, cpBrief(a), cpBrief(b), why)
					}
				}
			}
		}
		// the store itself, hammered directly (in-memory store only: the SQL store's one connection admits one write handle at
		// a time): writers take their handles and read the same state, wait at a spin barrier, then all call Set at once. The
		// handle is "an ACID transaction": of the transactions that read one state at most one can commit.
		if db == nil {
			for sr := 0; sr < 60; sr++ {
				id := fmt.Sprintf("storelevel-%d", sr%3)
				const nw = 4
				var ready, okN atomic.Int32
				var swg sync.WaitGroup
				for k := 0; k < nw; k++ {
					swg.Add(1)
					go func(k int) {
						defer swg.Done()
						wo, err := inner.WriteOps(id)
						if err != nil {
							ready.Add(1)
							return
						}
						defer wo.Close()
						_, _ = wo.GetLatest()
						ready.Add(1)
						for ready.Load() < nw {
						}
						if wo.Set([]byte(fmt.Sprintf("round %d writer %d", sr, k))) == nil {
							okN.Add(1)
						}
					}(k)
				}
				swg.Wait()
				storeRounds++
				if okN.Load() > 1 {
					t.Fatalf("C05 race stress: %d of %d writers that had read the same state of %q all committed (store-level round %d): the compare and the write of the in-memory store are not one critical section", okN.Load(), nw, id, sr)
				}
			}
		}
		// C20 under real parallelism: the production metrics backend (monitoring/prometheus) and the harness's own recording
		// factory received exactly the same increments, so per label they must agree (a backend that books an increment under
		// another log's label when two increments overlap does not)
		if bad := backendDisagreement(); bad != "" {
			fmt.Printf("RACESTRESS COUNTERS %s\n", bad)
			t.Fatalf("C20 race stress: %s", bad)
		}
		if db != nil {
			db.Close()
		}
		if dir != "" {
			os.RemoveAll(dir)
		}
		rounds++
	}
	fmt.Printf("RACESTRESS rounds=%d accepted=%d conflicts=%d store_level_rounds=%d wall=%.1fs\n", rounds, accepted, conflicts, storeRounds, time.Since(start).Seconds())
}

// backendDisagreement compares, for every single-label counter, the value held by the Prometheus registry with the number of
// increments the recording factory saw for that label.
func backendDisagreement() string {
	mfs, err := prometheus.DefaultGatherer.Gather()
	if err != nil {
		return "gathering from the Prometheus registry failed: " + err.Error()
	}
	rec := recorder.Snapshot()
	compared := 0
	seen := map[string]bool{}
	for _, mf := range mfs {
		for _, m := range mf.GetMetric() {
			if m.GetCounter() == nil || len(m.GetLabel()) != 1 {
				continue
			}
			key := strings.TrimPrefix(mf.GetName(), "verifsim_") + "|" + m.GetLabel()[0].GetValue()
			compared++
			seen[key] = true
			if want, ok := rec[key]; ok && want != m.GetCounter().GetValue() {
				return fmt.Sprintf("counter %s{%s=%q}: the Prometheus backend holds %v, %v increments were made for that label", mf.GetName(), m.GetLabel()[0].GetName(), m.GetLabel()[0].GetValue(), m.GetCounter().GetValue(), want)
			}
		}
	}
	// and the other way round: every label that received increments has a series (over the rounds of one process the
	// counters see up to 48 log IDs - a backend that drops or recycles series beyond some number of labels loses counts)
	for key, want := range rec {
		name, label, ok := strings.Cut(key, "|")
		if !ok || label == "" || strings.Contains(label, "|") || want == 0 {
			continue
		}
		if !seen[key] {
			return fmt.Sprintf("counter %s{%q}: %v increments were made for that label, the Prometheus backend has no series for it", name, label, want)
		}
	}
	if compared == 0 {
		return "no labelled counter found in the Prometheus registry: the comparison is vacuous"
	}
	return ""
}
