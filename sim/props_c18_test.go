//go:build go1.25

package verifsim

import (
	"bytes"
	"context"
	"fmt"
	"net/http"
	"os"
	"strconv"
	"strings"
	"sync"
	"testing"
	"testing/synctest"
	"time"

	"github.com/transparency-dev/witness/internal/client"
	"github.com/transparency-dev/witness/internal/config"
	"github.com/transparency-dev/witness/internal/feeder"
	"github.com/transparency-dev/witness/internal/feeder/sumdb"
	"github.com/transparency-dev/witness/internal/persistence/inmemory"
	"github.com/transparency-dev/witness/internal/witness"
	"github.com/transparency-dev/witness/omniwitness"
	"golang.org/x/mod/sumdb/note"
	"golang.org/x/mod/sumdb/tlog"
)

// ---------------------------------------------------------------- stub SumDB / tlog-tiles servers over the reference tree

// tilePathRef is the c2sp.org/tlog-tiles path encoding written from the spec:
// tile/<H>/<L>/<N>[.p/<W>] with N in groups of three digits, all but the last prefixed by x.
func tilePathRef(h, l int, n int64, w int) string {
	nstr := fmt.Sprintf("%03d", n%1000)
	for n >= 1000 {
		n /= 1000
		nstr = fmt.Sprintf("x%03d/%s", n%1000, nstr)
	}
	ls := strconv.Itoa(l)
	if l < 0 {
		ls = "data"
	}
	p := fmt.Sprintf("tile/%d/%s/%s", h, ls, nstr)
	if w != 1<<uint(h) {
		p += fmt.Sprintf(".p/%d", w)
	}
	return p
}

// parseTilePath is the inverse, for the stub server.
func parseTilePath(p string) (h, l int, n int64, w int, ok bool) {
	f := strings.Split(strings.TrimPrefix(p, "/"), "/")
	if len(f) < 4 || f[0] != "tile" {
		return
	}
	var err error
	if h, err = strconv.Atoi(f[1]); err != nil || h < 1 || h > 30 {
		return
	}
	if f[2] == "data" {
		l = -1
	} else if l, err = strconv.Atoi(f[2]); err != nil || l < 0 || l > 63 {
		return
	}
	w = 1 << uint(h)
	rest := f[3:]
	if len(rest) >= 2 && strings.HasSuffix(rest[len(rest)-2], ".p") {
		if w, err = strconv.Atoi(rest[len(rest)-1]); err != nil || w < 1 || w >= 1<<uint(h) || strconv.Itoa(w) != rest[len(rest)-1] {
			return
		}
		rest = rest[:len(rest)-1]
		rest[len(rest)-1] = strings.TrimSuffix(rest[len(rest)-1], ".p")
	}
	for i, g := range rest {
		last := i == len(rest)-1
		if !last {
			if !strings.HasPrefix(g, "x") {
				return
			}
			g = g[1:]
		}
		if len(g) != 3 {
			return
		}
		v, err := strconv.Atoi(g)
		if err != nil || v < 0 {
			return
		}
		if i == 0 && v == 0 && len(rest) > 1 {
			return // no leading zero groups
		}
		n = n*1000 + int64(v)
	}
	ok = true
	return
}

type tileStub struct {
	growOnHead, growCap uint64 // the tree grows by growOnHead leaves on every request for the head, up to growCap
	xsigs               int    // extra signature lines by unknown keys on the published checkpoint
	tilesAhead          uint64 // if larger than size: tiles are served for a tree of this size (the log's storage runs ahead of its published head)
	mu                  sync.Mutex
	tree                *RefTree
	size                uint64
	origin              string
	key                 *Key
	world               *World
	keyIdx              int
	kind                string   // sumdb | tiles
	ext                 []string // extension lines this log puts after the root hash (legal for tlog-tiles style logs)
	bad                 []string // malformed tile requests seen
	served              int
	cpText              string
}

func (s *tileStub) checkpoint() []byte {
	s.mu.Lock()
	defer s.mu.Unlock()
	if s.growOnHead > 0 && s.size+s.growOnHead <= s.growCap {
		s.size += s.growOnHead // a busy log: every look at its head shows a larger tree
	}
	h := s.tree.Root(s.size)
	text := CheckpointText(s.origin, s.size, h[:], s.ext...)
	s.cpText = text
	line := ""
	if s.world != nil {
		line = s.world.Sign(s.keyIdx, &SignedCP{Origin: s.origin, Size: s.size, Root: h[:], Text: text})
	} else {
		line = s.key.SignEd25519(text)
	}
	lines := []string{line}
	for i := 0; i < s.xsigs; i++ {
		// other parties' signature lines on the published checkpoint (other witnesses' cosignatures, say): unknown to the reader
		lines = append(lines, sigLine(fmt.Sprintf("other-witness-%d", i), uint32(0x1000+i), bytes.Repeat([]byte{byte(i)}, 72)))
	}
	return MakeNote(text, lines...)
}

func (s *tileStub) tile(h, l int, n int64, w int) ([]byte, bool) {
	s.mu.Lock()
	defer s.mu.Unlock()
	if l < 0 {
		return []byte("record\n\n"), true
	}
	span := uint64(1) << uint(h*l) // leaves under one hash of this tile
	first := uint64(n) * uint64(1<<uint(h))
	if (first+uint64(w))*span > max(s.size, s.tilesAhead) || h*l > 62 {
		return nil, false
	}
	out := make([]byte, 0, 32*w)
	for i := uint64(0); i < uint64(w); i++ {
		lo := (first + i) * span
		hh := s.tree.mth(lo, lo+span)
		out = append(out, hh[:]...)
	}
	return out, true
}

func (s *tileStub) ServeHTTP(rw http.ResponseWriter, rq *http.Request) {
	p := rq.URL.Path
	switch {
	case s.kind == "sumdb" && p == "/latest", s.kind == "tiles" && p == "/checkpoint":
		rw.Write(s.checkpoint())
		return
	case strings.HasPrefix(p, "/tile/"):
		if s.kind == "tiles" {
			p = "/tile/8/" + strings.TrimPrefix(p, "/tile/") // tlog-tiles paths leave the height (8) implicit
		}
		h, l, n, w, ok := parseTilePath(p)
		if !ok || h != 8 || tilePathRef(h, l, n, w) != strings.TrimPrefix(p, "/") {
			s.mu.Lock()
			s.bad = append(s.bad, p)
			s.mu.Unlock()
			http.Error(rw, "malformed tile path", 400)
			return
		}
		b, ok := s.tile(h, l, n, w)
		if !ok {
			http.NotFound(rw, rq)
			return
		}
		s.mu.Lock()
		s.served++
		s.mu.Unlock()
		rw.Write(b)
		return
	}
	http.NotFound(rw, rq)
}

// ---------------------------------------------------------------- C18

var c18Trees sync.Map // dense/seed -> *RefTree, shared across runs of one process (memoised node hashes)

// lead != 0 asks for a tree in which hash tile lead>>8 of level 0 begins with byte lead&0xff (a record whose leaf hash starts
// with that byte is looked for): hash tiles are raw bytes, and any byte can come first - '<', a blank, a line feed, 0x1f.
func c18Tree(dense uint64, seed uint64, lead int64) *RefTree {
	key := fmt.Sprintf("%d/%d/%d", dense, seed, lead)
	if t, ok := c18Trees.Load(key); ok {
		return t.(*RefTree)
	}
	sp := map[uint64]string{}
	r := NewRng(seed)
	for i := 0; i < 24; i++ {
		sp[r.U64n(1<<21)] = fmt.Sprintf("sp%d", i)
	}
	if lead != 0 {
		for i := 0; ; i++ {
			c := fmt.Sprintf("lead%d", i)
			if h := hashLeaf([]byte("s:" + c)); h[0] == byte(lead) {
				sp[uint64(lead>>8)*256] = c
				break
			}
		}
	}
	t := NewRefTree(dense, sp)
	c18Trees.Store(key, t)
	return t
}

type recWitness struct {
	in     feeder.Witness
	calls  []*feedCall
	before func() // runs once, just before the first Update is forwarded (a competing submitter gets in first)
}

func (r *recWitness) GetLatestCheckpoint(ctx context.Context, id string) ([]byte, error) {
	return r.in.GetLatestCheckpoint(ctx, id)
}
func (r *recWitness) Update(ctx context.Context, id string, old uint64, cp []byte, proof [][]byte) ([]byte, error) {
	c := &feedCall{Kind: "U", Old: old, CP: append([]byte{}, cp...), Proof: proof}
	r.calls = append(r.calls, c)
	if r.before != nil {
		f := r.before
		r.before = nil
		f()
	}
	c.Out, c.Err = r.in.Update(ctx, id, old, cp, proof)
	return c.Out, c.Err
}

type c18Pair struct{ from, to uint64 }

const c18Max = 1200
const c18AllPairs = c18Max * (c18Max - 1) / 2
const c18Batch = 8

func c18PairAt(k uint64) c18Pair {
	// enumerate (from,to) with 1 <= from < to <= c18Max in lexicographic order of to, then from
	to := uint64(2)
	for k >= to-1 {
		k -= to - 1
		to++
	}
	return c18Pair{from: k + 1, to: to}
}

func c18Exec(t *testing.T, p *Plan, pairs []c18Pair, faults map[string]string) (viol []Violation, infra string, st Stats, sample any) {
	st = newStats()
	defer func() {
		if x := recover(); x != nil {
			infra = fmt.Sprintf("bubble ended abnormally: %v", x)
			dumpGoroutines()
		}
	}()
	synctest.Test(t, func(t *testing.T) {
		pinGlobalRand(p.Seed)
		w := NewWorld(p)
		ld := w.Logs[0]
		tree := c18Tree(p.Cfg.Dense, uint64(p.Cfg.Extra["treeseed"]), p.Cfg.Extra["lead"])
		ld.Branches[0] = tree
		stub := &tileStub{tree: tree, origin: ld.Origin, key: ld.Key, world: w, keyIdx: ld.KeyIdx, kind: "sumdb"}
		sn := NewSimNet()
		sn.Hosts["sum.example"] = underPrefix(p.Cfg.Notes["url_prefix"], stub)
		hc := &http.Client{Transport: sn, Timeout: 10 * time.Second}
		cl, err := config.NewLog(ld.Origin, ld.Key.VerifierString(), "http://sum.example"+p.Cfg.Notes["url_prefix"])
		if err != nil {
			infra = err.Error()
			return
		}
		known, _ := w.KnownLogs()
		signers, _ := w.Signers()
		for _, pr := range pairs {
			realW, err := witness.New(witness.Opts{Persistence: inmemory.NewPersistence(), Signers: signers, KnownLogs: known})
			if err != nil {
				infra = err.Error()
				return
			}
			h := tree.Root(pr.from)
			ftext := CheckpointText(ld.Origin, pr.from, h[:])
			fcp := MakeNote(ftext, w.Sign(ld.KeyIdx, &SignedCP{Origin: ld.Origin, Size: pr.from, Root: h[:], Text: ftext}))
			if _, err := realW.Update(context.Background(), ld.ID, 0, fcp, nil); err != nil {
				infra = "seeding witness: " + err.Error()
				return
			}
			stub.mu.Lock()
			stub.size = pr.to
			stub.mu.Unlock()
			rw := &recWitness{in: omniwitness.VerifWitnessAdapter(realW)}
			if mid := uint64(p.Cfg.Extra["compete_mid"]); mid > pr.from && mid < pr.to {
				// another submitter moves the witness from 'from' to 'mid' between the feeder's read and its update
				rw.before = func() {
					mh := tree.Root(mid)
					mtext := CheckpointText(ld.Origin, mid, mh[:])
					mcp := MakeNote(mtext, w.Sign(ld.KeyIdx, &SignedCP{Origin: ld.Origin, Size: mid, Root: mh[:], Text: mtext}))
					if _, err := realW.Update(context.Background(), ld.ID, pr.from, mcp, tree.ConsistencyProof(pr.from, mid)); err != nil {
						infra = "competing submitter: " + err.Error()
					}
					st.Fired["competing_submitter_moved_witness"]++
				}
			}
			sn.mu.Lock()
			sn.Faults = map[string]string{}
			base := len(sn.Log)
			for k, v := range faults {
				var n int
				fmt.Sscanf(k, "req#%d", &n)
				sn.Faults[fmt.Sprintf("net#%d", base+n)] = v
			}
			sn.mu.Unlock()
			ctx, cancel := context.WithCancel(context.Background())
			done := make(chan error, 1)
			go func() { done <- sumdb.FeedLog(ctx, cl, rw, hc, 0) }()
			var ferr error
			finished := false
			for i := 0; i < 150 && !finished; i++ {
				synctest.Wait()
				select {
				case ferr = <-done:
					finished = true
				default:
					time.Sleep(10 * time.Second)
				}
			}
			if !finished {
				cancel()
				ferr = <-done
				viol = append(viol, Violation{Class: "cycle_without_result", Sig: "cycle_without_result", Detail: fmt.Sprintf("FeedLog(%d -> %d) did not end within 1500 simulated seconds (faults %v)", pr.from, pr.to, faults)})
			}
			cancel()
			toRoot := tree.Root(pr.to)
			for _, c := range rw.calls {
				stt := parseStored(c.CP)
				oldRoot := tree.Root(c.Old)
				good := !stt.Bad && stt.Size == pr.to && string(stt.Root) == string(toRoot[:]) && c.Old >= pr.from && c.Old < pr.to &&
					RefVerifyConsistency(c.Old, pr.to, c.Proof, oldRoot[:], toRoot[:])
				if !good && len(faults) > 0 {
					// Under network faults the property does not promise that only valid proofs are built (x/mod's
					// TileHashReader does not authenticate every fetched tile); what must hold is that the witness
					// refuses what the reference verifier refuses.
					st.Probes["invalid_proof_submitted_under_fault_and_refused"]++
					if c.Err == nil {
						viol = append(viol, Violation{Class: "wrong_proof_submitted_under_fault", Sig: "wrong_proof_accepted", Detail: fmt.Sprintf("FeedLog(%d -> %d) under faults %v submitted old=%d size=%d with a proof the reference verifier rejects, and the witness accepted it", pr.from, pr.to, faults, c.Old, stt.Size)})
					}
				} else if !good {
					viol = append(viol, Violation{Class: "proof_rejected", Sig: "proof_rejected", Detail: fmt.Sprintf("FeedLog(%d -> %d) submitted old=%d size=%d with %d proof hashes that the RFC 6962 reference verifier rejects (witness said %v)", pr.from, pr.to, c.Old, stt.Size, len(c.Proof), c.Err)})
				} else if c.Err != nil && !(p.Cfg.Extra["compete_mid"] > 0 && strings.Contains(c.Err.Error(), "old size != current")) {
					viol = append(viol, Violation{Class: "proof_rejected", Sig: "proof_rejected/by_witness", Detail: fmt.Sprintf("FeedLog(%d -> %d): a proof the reference verifier accepts was refused by the witness: %v", pr.from, pr.to, c.Err)})
				}
			}
			if len(faults) == 0 {
				if ferr != nil {
					viol = append(viol, Violation{Class: "proof_rejected", Sig: "proof_rejected/feed_failed", Detail: fmt.Sprintf("fault-free FeedLog(%d -> %d) failed: %v", pr.from, pr.to, ferr)})
				} else if cur, _ := realW.GetCheckpoint(ld.ID); parseStored(cur).Size != pr.to {
					viol = append(viol, Violation{Class: "proof_rejected", Sig: "proof_rejected/not_advanced", Detail: fmt.Sprintf("fault-free FeedLog(%d -> %d) returned nil but the witness is at %d", pr.from, pr.to, parseStored(cur).Size)})
				}
			} else if cur, _ := realW.GetCheckpoint(ld.ID); string(parseStored(cur).Root) != string(h[:]) && string(parseStored(cur).Root) != string(toRoot[:]) {
				viol = append(viol, Violation{Class: "wrong_proof_submitted_under_fault", Sig: "witness_left_history", Detail: fmt.Sprintf("FeedLog(%d -> %d) under faults %v left the witness at {%s}, which is neither of the log's two checkpoints", pr.from, pr.to, faults, cpBrief(parseStored(cur)))})
			} else if _, hitCP := faults["req#0"]; ferr != nil && !hitCP {
				// every injected fault hit one single tile request; FeedOnce retries with fresh fetches, so the cycle must
				// recover (a fault on the checkpoint fetch itself is not retried and may legitimately end the cycle)
				viol = append(viol, Violation{Class: "proof_rejected", Sig: "proof_rejected/no_recovery_after_transient_fault", Detail: fmt.Sprintf("FeedLog(%d -> %d): one-off faults %v on tile requests, the server healthy afterwards, yet the cycle ended in: %v", pr.from, pr.to, faults, ferr)})
			} else if ferr == nil {
				if cur, _ := realW.GetCheckpoint(ld.ID); parseStored(cur).Size != pr.to {
					viol = append(viol, Violation{Class: "wrong_proof_submitted_under_fault", Sig: "success_without_advance", Detail: fmt.Sprintf("FeedLog(%d -> %d) under faults %v returned nil but the witness is at %d", pr.from, pr.to, faults, parseStored(cur).Size)})
				}
				st.Probes["cycle_survived_fault"]++
			} else {
				st.Probes["cycle_failed_under_fault"]++
			}
			stub.mu.Lock()
			if len(stub.bad) > 0 {
				viol = append(viol, Violation{Class: "tile_path_mismatch", Sig: "tile_path_mismatch/feeder", Detail: fmt.Sprintf("FeedLog(%d -> %d) requested malformed tile paths %v", pr.from, pr.to, stub.bad)})
				stub.bad = nil
			}
			stub.mu.Unlock()
			if len(viol) > 0 {
				break
			}
		}
		for k, v := range sn.Fired {
			st.Fired[k] += v
		}
		if os.Getenv("VERIF_DEBUG") != "" {
			for _, q := range sn.Requests() {
				fmt.Fprintf(os.Stderr, "REQ %d %s %s fault=%q status=%d\n", q.N, q.Method, q.Path, q.Fault, q.Status)
			}
		}
		st.Probes["tile_requests_served"] += stub.served
		st.SimNanos = 0
		sample = map[string]any{"pairs": fmt.Sprint(pairs), "faults": faults, "tile_requests": stub.served}
		time.Sleep(time.Minute)
		synctest.Wait()
	})
	return
}

// c18Grow keeps one sumdb.FeedLog alive (polling mode) while the stub log grows through a sequence of sizes.
func c18Grow(t *testing.T, p *Plan, sizes []uint64) (viol []Violation, infra string, st Stats) {
	st = newStats()
	defer func() {
		if x := recover(); x != nil {
			infra = fmt.Sprintf("bubble ended abnormally: %v", x)
			dumpGoroutines()
		}
	}()
	synctest.Test(t, func(t *testing.T) {
		pinGlobalRand(p.Seed)
		w := NewWorld(p)
		ld := w.Logs[0]
		tree := c18Tree(p.Cfg.Dense, uint64(p.Cfg.Extra["treeseed"]), p.Cfg.Extra["lead"])
		ld.Branches[0] = tree
		stub := &tileStub{tree: tree, origin: ld.Origin, key: ld.Key, world: w, keyIdx: ld.KeyIdx, kind: "sumdb", size: sizes[0]}
		sn := NewSimNet()
		sn.Hosts["sum.example"] = underPrefix(p.Cfg.Notes["url_prefix"], stub)
		hc := &http.Client{Transport: sn, Timeout: 10 * time.Second}
		cl, err := config.NewLog(ld.Origin, ld.Key.VerifierString(), "http://sum.example"+p.Cfg.Notes["url_prefix"])
		if err != nil {
			infra = err.Error()
			return
		}
		known, _ := w.KnownLogs()
		signers, _ := w.Signers()
		realW, err := witness.New(witness.Opts{Persistence: inmemory.NewPersistence(), Signers: signers, KnownLogs: known})
		if err != nil {
			infra = err.Error()
			return
		}
		rw := &recWitness{in: omniwitness.VerifWitnessAdapter(realW)}
		ctx, cancel := context.WithCancel(context.Background())
		done := make(chan error, 1)
		interval := 10 * time.Second
		go func() { done <- sumdb.FeedLog(ctx, cl, rw, hc, interval) }()
		checked := 0
		moving := p.Cfg.Extra["moving_head"] != 0
		if p.Cfg.Extra["tiles_ahead"] != 0 {
			// the log's tile storage runs ahead of the head it publishes (entries are integrated before the checkpoint is signed);
			// and once, a request for a partial tile is answered 503
			stub.tilesAhead = sizes[len(sizes)-1]
			failed := false
			sn.FaultFn = func(class string, occ int) string {
				stub.mu.Lock()
				defer stub.mu.Unlock()
				if !failed && strings.Contains(class, ".p/") && stub.size >= uint64(p.Cfg.Extra["pfault_from"]) {
					failed = true
					st.Fired["partial_tile_503_once"]++
					return "status:503"
				}
				return ""
			}
		}
		for _, size := range sizes {
			stub.mu.Lock()
			if moving && stub.size > size {
				size = stub.size // the head has already moved past this step's size: the log never goes backwards
			}
			stub.size = size
			if moving {
				stub.growOnHead, stub.growCap = 1+uint64(p.Cfg.Extra["moving_head"])%3, size+40
			}
			stub.mu.Unlock()
			time.Sleep(3*interval + time.Second)
			synctest.Wait()
			cur, _ := realW.GetCheckpoint(ld.ID)
			stub.mu.Lock()
			head := stub.size
			stub.mu.Unlock()
			if got := parseStored(cur); moving && got.Has && got.Size >= size && got.Size <= head {
				// the head moves with every look at it: any head served since the step began will do
			} else if !got.Has || got.Size != size {
				viol = append(viol, Violation{Class: "proof_rejected", Sig: "proof_rejected/polling_feeder_stuck", Detail: fmt.Sprintf("one FeedLog lifetime, log sizes %v: after the log reached %d the witness still serves {%s} three poll intervals later", sizes, size, cpBrief(got))})
				break
			}
			for _, c := range rw.calls[checked:] {
				stt := parseStored(c.CP)
				if c.Old == 0 || stt.Bad || c.Old >= stt.Size {
					continue
				}
				fr, to := tree.Root(c.Old), tree.Root(stt.Size)
				if !RefVerifyConsistency(c.Old, stt.Size, c.Proof, fr[:], to[:]) {
					viol = append(viol, Violation{Class: "proof_rejected", Sig: "proof_rejected/polling", Detail: fmt.Sprintf("one FeedLog lifetime, log sizes %v: the proof submitted for %d -> %d is rejected by the reference verifier (witness said %v)", sizes, c.Old, stt.Size, c.Err)})
				}
			}
			checked = len(rw.calls)
			if len(viol) > 0 {
				break
			}
		}
		cancel()
		for i := 0; i < 60; i++ {
			synctest.Wait()
			select {
			case <-done:
				i = 1000
			default:
				time.Sleep(time.Second)
			}
		}
		st.Probes["tile_requests_served"] += stub.served
		st.Probes["polling_growth_steps"] += len(sizes)
		time.Sleep(time.Minute)
		synctest.Wait()
	})
	return
}

// underPrefix serves h under a path prefix (a checksum database hosted below a path, e.g. behind a module proxy:
// https://proxy.example/sumdb/<name>); requests that do not carry the prefix get 404.
func underPrefix(prefix string, h http.Handler) http.Handler {
	if prefix == "" {
		return h
	}
	return http.HandlerFunc(func(rw http.ResponseWriter, rq *http.Request) {
		if !strings.HasPrefix(rq.URL.Path, prefix+"/") {
			http.NotFound(rw, rq)
			return
		}
		q := rq.Clone(rq.Context())
		u := *rq.URL
		u.Path = strings.TrimPrefix(rq.URL.Path, prefix)
		u.RawPath = ""
		q.URL = &u
		h.ServeHTTP(rw, q)
	})
}

func c18Paths(t *testing.T, p *Plan) (viol []Violation, infra string, st Stats, evals int) {
	st = newStats()
	w := NewWorld(p)
	ld := w.Logs[0]
	sn := NewSimNet()
	sn.Hosts["sum.example"] = http.HandlerFunc(func(rw http.ResponseWriter, rq *http.Request) { rw.Write([]byte("x\n\n")) })
	v, err := note.NewVerifier(ld.Key.VerifierString())
	if err != nil {
		return nil, err.Error(), st, 0
	}
	c := client.NewSumDB(8, v, "http://sum.example"+p.Cfg.Notes["url_prefix"], &http.Client{Transport: sn})
	r := NewRng(p.Seed ^ 0x7117)
	carries := []int64{0, 1, 9, 10, 99, 100, 255, 256, 999, 1000, 1001, 9999, 10000, 99999, 100000, 999999, 1000000, 1000001, 999999999, 1000000000}
	for i := 0; i < 400; i++ {
		level := r.IntN(8)
		n := carries[r.IntN(len(carries))]
		if r.Bool() {
			n = r.Int64N(1000000001)
		}
		if r.Chance(0.2) {
			n = int64(r.IntN(4))*1000 + int64(Pick(r, 0, 999))
		}
		width := r.Range(1, 256)
		var want string
		before := len(sn.Requests())
		switch r.IntN(4) {
		case 0: // full hash tile
			_, err = c.TileData(level, int(n), -1)
			want = tlog.Tile{H: 8, L: level, N: n, W: 256}.Path()
			width = 256
		case 1: // partial hash tile
			if width == 256 {
				width = 255
			}
			_, err = c.TileData(level, int(n), width)
			want = tlog.Tile{H: 8, L: level, N: n, W: width}.Path()
		case 2:
			_, err = c.FullLeavesAtOffset(int(n))
			want = tlog.Tile{H: 8, L: -1, N: n, W: 256}.Path()
			level, width = -1, 256
		default:
			if width == 256 {
				width = 255
			}
			_, err = c.PartialLeavesAtOffset(int(n), width)
			want = tlog.Tile{H: 8, L: -1, N: n, W: width}.Path()
			level = -1
		}
		evals++
		reqs := sn.Requests()
		if err != nil || len(reqs) != before+1 {
			viol = append(viol, Violation{Class: "tile_path_mismatch", Sig: "tile_path_mismatch/no_request", Detail: fmt.Sprintf("tile L=%d N=%d W=%d: err=%v requests=%d", level, n, width, err, len(reqs)-before)})
			return
		}
		got := reqs[len(reqs)-1].Path
		want = p.Cfg.Notes["url_prefix"] + "/" + want
		if ref := p.Cfg.Notes["url_prefix"] + "/" + tilePathRef(8, level, n, width); ref != want {
			infra = fmt.Sprintf("harness tile path %q disagrees with tlog.Tile.Path %q", ref, want)
			return
		}
		if got != want {
			viol = append(viol, Violation{Class: "tile_path_mismatch", Sig: "tile_path_mismatch/client", Detail: fmt.Sprintf("tile L=%d N=%d W=%d: requested %q, the reference path is %q", level, n, width, got, want)})
			return
		}
		st.Probes[fmt.Sprintf("path_groups_%d", strings.Count(want, "/x"))]++
	}
	return
}

func init() {
	register(&Scenario{
		Prop:  "C18",
		Level: "exploration",
		Rule:  "four batches by run number. paths: the real SumDB client issues full/partial hash-tile and data-tile requests (levels 0..7, widths 1..256, indices over 0..10^9 with every carry boundary of the x%03d encoding) to a recording stub behind simnet; the requested path must equal tlog.Tile.Path (cross-checked with a harness implementation from the c2sp spec). proofs: the real sumdb.FeedLog (one shot) against a stub SumDB served from the reference tree and a real witness holding size 'from'; thorough enumerates ALL pairs 1 <= from < to <= 1200 and then samples pairs up to 2^20, quick samples with a boundary bias (255/256/257, 511/512, 65535/65536); the proof reaching the witness must be accepted by the RFC 9162 reference verifier and by the witness. polling: one long-lived FeedLog with a poll interval while the log grows through 3..7 sizes (partial tiles widen between polls), the witness must reach every size within 3 intervals. faults: failed, truncated, corrupted, garbage and oversized tile/checkpoint responses; whatever is submitted must still be a valid proof, and the cycle must end. non-trivial = a pair whose proof needed at least one tile fetch; distinct = distinct (from, to) pairs or (level, index-class, width-class) triples",
		Total: func(tier string) uint64 {
			if tier == "thorough" {
				return c18AllPairs/c18Batch + 1 + 60000
			}
			return 1 << 62
		},
		Gen: func(r *Rng, tier string, n uint64) *Plan {
			p := &Plan{Scenario: "sumdb"}
			p.Cfg = Config{Store: "mem", Dense: 2048, WitKeys: []string{"cosig:0"}, Logs: []LogCfg{{Origin: "go.sum database tree", Key: 0}},
				Extra: map[string]int64{"treeseed": 7}, Notes: map[string]string{}}
			if r.Chance(0.3) {
				p.Cfg.Notes["url_prefix"] = Pick(r, "/sumdb/sum.example", "/mirror/v1/db", "/x") // the database lives below a path of its host
			}
			bound := []uint64{1, 2, 3, 255, 256, 257, 511, 512, 513, 1023, 1024, 65535, 65536, 65537, 1 << 17, 1<<20 - 1, 1 << 20}
			pick := func() uint64 {
				switch r.IntN(4) {
				case 0:
					return bound[r.IntN(len(bound))]
				case 1:
					b := bound[r.IntN(len(bound))]
					return b + uint64(r.IntN(5))
				case 2:
					return 1 + r.U64n(1<<20)
				default:
					return 1 + r.U64n(1300)
				}
			}
			randomPairs := func(k int) string {
				var s []string
				for i := 0; i < k; i++ {
					a, b := pick(), pick()
					if a == b {
						b++
					}
					if a > b {
						a, b = b, a
					}
					s = append(s, fmt.Sprintf("%d-%d", a, b))
				}
				return strings.Join(s, ",")
			}
			if tier == "thorough" {
				if n <= c18AllPairs/c18Batch {
					p.Cfg.Notes["mode"] = "enum"
					p.Cfg.Extra["first"] = int64(n * c18Batch)
					return p
				}
				n -= c18AllPairs/c18Batch + 1
			}
			if n%8 == 5 {
				// one long-lived polling feeder while the log grows through several sizes (partial tiles widen between polls)
				p.Cfg.Notes["mode"] = "grow"
				cur := pick() % 70000
				var ss []string
				for i := 0; i < r.Range(3, 7); i++ {
					cur += uint64(Pick(r, 1, 1, 2, 30, 60, 155, 255, 256, 257, 300, 1000, 65000))
					if r.Chance(0.35) {
						// land on a chosen width of the last (partial) tile: small powers of two, one short of full
						cur = (cur/256+1)*256 + uint64(Pick(r, 1, 2, 4, 8, 8, 16, 32, 64, 128, 255))
					}
					ss = append(ss, fmt.Sprint(cur))
				}
				p.Cfg.Notes["sizes"] = strings.Join(ss, ",")
				if r.Chance(0.4) {
					p.Cfg.Extra["moving_head"] = int64(r.Range(1, 3)) // a busy log: its head has moved on every time it is looked at
				} else if r.Chance(0.4) {
					p.Cfg.Extra["tiles_ahead"] = 1
					p.Cfg.Extra["pfault_from"] = int64(cur) * int64(r.IntN(2)) // from the start, or only at the last step
				}
				return p
			}
			switch n % 4 {
			case 0:
				p.Cfg.Notes["mode"] = "paths"
			case 1, 2:
				p.Cfg.Notes["mode"] = "pairs"
				p.Cfg.Notes["pairs"] = randomPairs(c18Batch)
				if n%8 == 1 && r.Chance(0.5) {
					// a tree one of whose hash tiles begins with a byte that text-minded code might take for something else
					tile := int64(r.IntN(5))
					p.Cfg.Extra["lead"] = tile<<8 | int64(Pick(r, '<', '<', ' ', '\n', '\t', '\r', '{', '[', '"', 0x1f, 0xff, 0xef, '#', '-', '0'))
					a := uint64(tile)*256 + 1 + r.U64n(250)
					p.Cfg.Notes["pairs"] += fmt.Sprintf(",%d-%d,%d-%d", a, a+1+r.U64n(700), a, uint64(tile)*256+256+r.U64n(3))
				}
				if n%8 == 2 {
					// one pair, with a competing submitter moving the witness to a size in between before the feeder's update lands
					for {
						p.Cfg.Notes["pairs"] = randomPairs(1)
						var a, b uint64
						fmt.Sscanf(p.Cfg.Notes["pairs"], "%d-%d", &a, &b)
						if b > a+1 {
							p.Cfg.Extra["compete_mid"] = int64(a + 1 + r.U64n(b-a-1))
							break
						}
					}
				}
			default:
				p.Cfg.Notes["mode"] = "faults"
				p.Cfg.Notes["pairs"] = randomPairs(1)
				k := r.Range(1, 3)
				var fs []string
				for i := 0; i < k; i++ {
					fs = append(fs, fmt.Sprintf("req#%d=%s", r.IntN(8), Pick(r, "drop", "status:500", "status:404", "trunc:100", "trunc:31", "corrupt:7", "corrupt:1000", "garbage:5", "empty", "oversize:2000000", "stall", "status:200")))
				}
				p.Cfg.Notes["faults"] = strings.Join(fs, ",")
			}
			return p
		},
		Run: func(t *testing.T, p *Plan) *Outcome {
			out := &Outcome{Stats: newStats()}
			parsePairs := func(s string) []c18Pair {
				var ps []c18Pair
				for _, x := range strings.Split(s, ",") {
					var a, b uint64
					if _, err := fmt.Sscanf(x, "%d-%d", &a, &b); err == nil {
						ps = append(ps, c18Pair{a, b})
					}
				}
				return ps
			}
			switch p.Cfg.Notes["mode"] {
			case "paths":
				v, infra, st, ev := c18Paths(t, p)
				out.Viol, out.Stats, out.Evals = v, st, ev
				if infra != "" {
					out.Infra = []string{infra}
				}
				for k := range st.Probes {
					out.Distinct = append(out.Distinct, k)
				}
				out.Events = []string{"paths"}
				return out
			case "grow":
				var sizes []uint64
				for _, x := range strings.Split(p.Cfg.Notes["sizes"], ",") {
					var v uint64
					fmt.Sscan(x, &v)
					sizes = append(sizes, v)
				}
				v, infra, st := c18Grow(t, p, sizes)
				out.Viol, out.Stats, out.Evals = v, st, len(sizes)
				if infra != "" {
					out.Infra = []string{infra}
				}
				out.Distinct = []string{"grow/" + p.Cfg.Notes["sizes"]}
				out.Events = []string{"grow", p.Cfg.Notes["sizes"]}
				return out
			case "enum":
				var ps []c18Pair
				for k := uint64(p.Cfg.Extra["first"]); k < uint64(p.Cfg.Extra["first"])+c18Batch && k < c18AllPairs; k++ {
					ps = append(ps, c18PairAt(k))
				}
				v, infra, st, sample := c18Exec(t, p, ps, nil)
				out.Viol, out.Stats, out.Evals, out.Sample = v, st, len(ps), sample
				if infra != "" {
					out.Infra = []string{infra}
				}
				for _, pr := range ps {
					out.Distinct = append(out.Distinct, fmt.Sprintf("%d-%d", pr.from, pr.to))
				}
				out.Stats.Probes["enumerated_pairs_le_1200"] += len(ps)
				out.Events = []string{fmt.Sprint(ps)}
				return out
			default:
				ps := parsePairs(p.Cfg.Notes["pairs"])
				faults := map[string]string{}
				for _, f := range strings.Split(p.Cfg.Notes["faults"], ",") {
					if k, v, ok := strings.Cut(f, "="); ok {
						faults[k] = v
					}
				}
				v, infra, st, sample := c18Exec(t, p, ps, faults)
				out.Viol, out.Stats, out.Evals, out.Sample = v, st, len(ps), sample
				if infra != "" {
					out.Infra = []string{infra}
				}
				for _, pr := range ps {
					out.Distinct = append(out.Distinct, fmt.Sprintf("%d-%d/%s", pr.from, pr.to, p.Cfg.Notes["faults"]))
				}
				out.Events = []string{p.Cfg.Notes["pairs"], p.Cfg.Notes["faults"]}
				return out
			}
		},
		Components: map[string]string{
			"internal/client (SumDBClient, HTTPFetcher, path construction)":                     "real",
			"internal/feeder/sumdb (FeedLog, tileReader) + x/mod/sumdb/tlog.ProveTree":          "real",
			"internal/feeder (FeedOnce, backoff), omniwitness.witnessAdapter, internal/witness": "real",
			"SumDB server": "harness stub serving /latest and /tile/8/... from the reference tree, validating every tile path it receives",
			"network":      "simnet (drop, status substitution, truncation, corruption, garbage, oversize, stall)",
		},
		Assumptions: []string{"x/mod/sumdb/tlog.Tile.Path is 'the reference tlog implementation' the property names; the harness's own path encoder must agree with it or the run is a harness error", "leaves above index 2048 share a default content except 24 special ones, to keep million-leaf trees cheap"},
	})
}
