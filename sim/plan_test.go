package verifsim

import (
	"encoding/json"
	"fmt"
)

// A Plan is everything one execution depends on besides the code under test.
// Generation (seed -> plan) and execution (plan -> history) are separate so
// that a failing plan can be written out, minimised and replayed exactly.

type ForkCfg struct {
	Parent int    `json:"parent"`
	At     uint64 `json:"at"`
}

type LogCfg struct {
	Origin string    `json:"origin"`
	Key    int       `json:"key"`
	Forks  []ForkCfg `json:"forks,omitempty"` // branch i+1 = Forks[i]
}

type Config struct {
	Store    string            `json:"store"` // mem | sqlite
	Seam     string            `json:"seam"`  // none (inline, sequential) | iface | driver
	Logs     []LogCfg          `json:"logs"`
	WitKeys  []string          `json:"wit_keys"` // "ed:<n>" | "cosig:<n>"; n = witness key number
	Clients  int               `json:"clients"`
	Strategy string            `json:"strategy,omitempty"` // uniform | pct | hold
	Prio     []int             `json:"prio,omitempty"`
	ChangeAt []int             `json:"change_at,omitempty"`
	Hold     int               `json:"hold,omitempty"`
	Dense    uint64            `json:"dense"`
	Jumps    bool              `json:"jumps,omitempty"`
	Snap     bool              `json:"snap,omitempty"`     // side-snapshot the store around every op
	ReadBack bool              `json:"readback,omitempty"` // read the checkpoint back after every op
	Extra    map[string]int64  `json:"extra,omitempty"`    // scenario-specific knobs
	Notes    map[string]string `json:"notes,omitempty"`    // scenario-specific string knobs (e.g. crash points)
	DBPath   string            `json:"-"`                  // run on an existing SQLite file (crash recovery tails); never part of a replay file
}

type Op struct {
	C    int    `json:"c"`
	K    string `json:"k"` // update | read | list | jump
	L    int    `json:"l"`
	B    int    `json:"b,omitempty"`
	Sz   string `json:"sz,omitempty"` // rel | abs | back
	D    uint64 `json:"d,omitempty"`
	Old  string `json:"old,omitempty"`
	OldV uint64 `json:"oldv,omitempty"`
	P    string `json:"p,omitempty"`
	PV   uint64 `json:"pv,omitempty"`
	M    string `json:"m,omitempty"`
	MV   uint64 `json:"mv,omitempty"`
	Ms   int64  `json:"ms,omitempty"`  // jump length
	Rep  int    `json:"rep,omitempty"` // the op is issued Rep times in a row (long histories stay small on disk)
}

type Fault struct {
	At   string `json:"at"`   // "<task>:<seam op>#<occurrence>"
	Kind string `json:"kind"` // fail | unavailable | plain | conndone | ...
}

type Plan struct {
	Property string   `json:"property"`
	Scenario string   `json:"scenario"`
	Seed     uint64   `json:"seed"`
	Cfg      Config   `json:"config"`
	Ops      []Op     `json:"ops"`
	Faults   []Fault  `json:"faults,omitempty"`
	Tape     []uint32 `json:"tape,omitempty"`
}

func (p *Plan) Clone() *Plan {
	b, _ := json.Marshal(p)
	var q Plan
	if err := json.Unmarshal(b, &q); err != nil {
		panic(err)
	}
	if q.Cfg.Notes == nil {
		q.Cfg.Notes = map[string]string{}
	}
	if q.Cfg.Extra == nil {
		q.Cfg.Extra = map[string]int64{}
	}
	q.Cfg.DBPath = p.Cfg.DBPath
	return &q
}

func (p *Plan) String() string {
	b, _ := json.Marshal(p)
	return string(b)
}

func (o Op) String() string {
	b, _ := json.Marshal(o)
	return string(b)
}

// Violation is one oracle failure. Class+Sig identify it for the known-findings
// file; Detail is for the reader.
type Violation struct {
	Property string `json:"property"`
	Class    string `json:"class"`
	Sig      string `json:"sig"` // stable signature: class + the facts that identify the defect
	Detail   string `json:"detail"`
	OpIdx    int    `json:"op_idx"`
}

func (v Violation) String() string { return fmt.Sprintf("%s/%s: %s", v.Property, v.Class, v.Detail) }
