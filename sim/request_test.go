package verifsim

import (
	"bytes"
	"crypto/ed25519"
	"errors"
	"fmt"
	"strings"

	"github.com/transparency-dev/witness/internal/witness"
)

// Stored is what the harness knows to be in the store for one log: the bytes of
// the last successful Set seen at the storage seam, read with the harness's own
// note parser.
type Stored struct {
	Has  bool
	Raw  []byte
	Text string
	Size uint64
	Root []byte
	Bad  bool // stored bytes the harness cannot parse
}

func parseStored(raw []byte) Stored {
	s := Stored{Has: true, Raw: raw}
	pn, err := ParseNote(raw)
	if err != nil {
		s.Bad = true
		return s
	}
	s.Text = pn.Text
	_, size, root, err := ParseCheckpointText(pn.Text)
	if err != nil {
		s.Bad = true
		return s
	}
	s.Size, s.Root = size, root
	return s
}

// Request is a concrete update request resolved from a symbolic Op.
type Request struct {
	LogIdx   int
	LogID    string
	Known    bool
	Old      uint64
	CP       []byte
	Proof    [][]byte
	Text     string
	Size     uint64
	Root     []byte
	Branch   int
	NoHonest bool // an honest probe was asked for but no branch contains the stored checkpoint
	SigValid int  // 1 valid log signature+origin by construction, 0 invalid, -1 not known
	Desc     string
}

const maxU64 = ^uint64(0)

// maxNoteSigs is the note format's limit on signature lines (golang.org/x/mod/sumdb/note refuses a note with more).
const maxNoteSigs = 100

func umod(v uint64, n int) int {
	if n <= 0 {
		return 0
	}
	return int(v % uint64(n))
}

func satAdd(a, b uint64) uint64 {
	if a > maxU64-b {
		return maxU64
	}
	return a + b
}

// otherKeyLog is the first configured log whose key is not ld's (nil if every log uses ld's key).
func (w *World) otherKeyLog(ld *LogDef) *LogDef {
	for _, o := range w.Logs {
		if o.KeyIdx != ld.KeyIdx {
			return o
		}
	}
	return nil
}

// resolveUpdate turns a symbolic update into bytes, against the harness's view
// of the *same log's* stored state and the static world only.
func resolveUpdate(w *World, op Op, st Stored) *Request {
	if op.L < 0 || op.L >= len(w.Logs) {
		op.L = 0
	}
	ld := w.Logs[op.L]
	r := &Request{LogIdx: op.L, LogID: ld.ID, Known: true, SigValid: 1}
	cur := uint64(0)
	if st.Has && !st.Bad {
		cur = st.Size
	}
	// size
	switch op.Sz {
	case "abs":
		r.Size = op.D
	case "back":
		if op.D >= cur {
			r.Size = 0
		} else {
			r.Size = cur - op.D
		}
	case "rel1": // relative, but never the empty tree
		r.Size = satAdd(cur, op.D)
		if r.Size == 0 {
			r.Size = 1
		}
	default: // rel
		r.Size = satAdd(cur, op.D)
	}
	if r.Size > 1<<63 && op.B == -1 {
		r.NoHonest = true // beyond what the reference tree can compute: not an honest probe
	}
	if r.Size > 1<<63 && op.M != "garbage_root" {
		// the reference tree computes roots up to 2^63 leaves; beyond that only garbage roots
		op.M = "garbage_root"
	}
	b := op.B
	if b == -1 {
		// "the log whose history contains the witnessed checkpoint": the first branch that has the stored root at the stored size
		b = 0
		if st.Has && !st.Bad {
			if bs := w.BranchesWithRoot(op.L, st.Size, st.Root); len(bs) > 0 {
				b = bs[0]
			} else {
				b = -2
			}
		}
	}
	if b == -2 {
		// no honest log contains the witnessed checkpoint (garbage root): there is no honest probe; submit the trunk
		b = 0
		r.NoHonest = true
	}
	if b < 0 || b >= len(ld.Branches) {
		b = 0
	}
	r.Branch = b
	tree := ld.Branches[b]
	signKey := ld.KeyIdx
	origin := ld.Origin
	var ext []string
	mr := NewRng(splitmix(op.MV ^ 0xabcdef))
	switch op.M {
	case "garbage_root":
		r.Branch = -1
		n := []int{32, 32, 0, 5, 33}[op.MV%5]
		r.Root = NewRng(op.MV).Bytes(n)
	default:
		h := tree.Root(r.Size)
		r.Root = h[:]
	}
	switch op.M {
	case "ext", "splice_sig":
		for i := uint64(0); i < 1+op.MV%3; i++ {
			switch mr.IntN(3) {
			case 0:
				ext = append(ext, fmt.Sprintf("ext-%d %x", i, mr.Uint32()))
			case 1:
				ext = append(ext, fmt.Sprintf("shard fill 100%% sealed %%s %%d %%v %%%02x", mr.Uint32()%256)) // legal text that is hostile to printf-style helpers
			default:
				ext = append(ext, fmt.Sprintf("Timestamp: %d", 1700000000+int64(mr.Uint32()%100000)))
			}
		}
	case "otherorigin":
		// text of another configured origin (or an unconfigured one) signed with this log's key
		if len(w.Logs) > 1 {
			origin = w.Logs[(op.L+1+umod(op.MV, (len(w.Logs)-1)))%len(w.Logs)].Origin
		} else {
			origin = ld.Origin + "/other"
		}
		r.SigValid = 0
	case "origin_prefix":
		origin = ld.Origin + "x"
		r.SigValid = 0
	case "origin_bare":
		// the part of the configured origin in front of its shard or path suffix ("name - 123" -> "name", "host/path" -> "host"):
		// another origin, correctly signed with this log's key
		if name, _, ok := strings.Cut(ld.Origin, " - "); ok {
			origin = name
		} else if host, _, ok := strings.Cut(ld.Origin, "/"); ok {
			origin = host
		} else {
			origin = ld.Origin[:len(ld.Origin)/2]
		}
		r.SigValid = 0
	case "origin_ws":
		// the configured origin up to surrounding white space - a different origin, correctly signed with this log's key
		ws := []string{" ", "\t", "\u00a0", "\r", "\u2003", "\ufeff", "  ", "\u3000"}[op.MV%8]
		switch op.MV / 8 % 3 {
		case 0:
			origin = ld.Origin + ws
		case 1:
			origin = ws + ld.Origin
		default:
			origin = ws + ld.Origin + ws
		}
		r.SigValid = 0
	case "origin_case":
		origin = strings.ToUpper(ld.Origin)
		if origin == ld.Origin {
			origin = ld.Origin + "X"
		}
		r.SigValid = 0
	}
	if op.M == "pad_to" {
		// an extension line sized so that the submitted note is exactly MV bytes long (legal: extension lines are free-form)
		base := len(CheckpointText(origin, r.Size, r.Root)) + 1 + len(w.Keys[signKey].SignEd25519("x"))
		if fill := int(op.MV) - base - 1; fill > 0 {
			ext = append(ext, strings.Repeat("p", fill))
		}
	}
	r.Text = CheckpointText(origin, r.Size, r.Root, ext...)
	cp := &SignedCP{Origin: origin, Branch: r.Branch, Size: r.Size, Root: r.Root, Text: r.Text}
	var lines []string
	switch op.M {
	case "wrongkey":
		// signed by a key that is not this log's: another log's key if there is a different one, else a stranger
		other := -1
		for i := range w.Keys {
			if i != ld.KeyIdx {
				other = i
				break
			}
		}
		if other >= 0 && op.MV%2 == 0 {
			lines = append(lines, w.Sign(other, cp))
		} else {
			lines = append(lines, w.Stranger.SignEd25519(r.Text))
		}
		r.SigValid = 0
	case "wrongkey_samename":
		// stranger key masquerading under the log's key name (key hash differs)
		k := &Key{Name: ld.Key.Name, Seed: w.Stranger.Seed, Priv: w.Stranger.Priv, Pub: w.Stranger.Pub}
		lines = append(lines, k.SignEd25519(r.Text))
		r.SigValid = 0
	case "forgedhash":
		// a signature by another key - another configured log's if there is a different one and MV is even, else a stranger's -
		// carrying this log key's name and key hash
		priv := w.Stranger.Priv
		if ol := w.otherKeyLog(ld); ol != nil && op.MV%2 == 0 {
			priv = ol.Key.Priv
		}
		lines = append(lines, sigLine(ld.Key.Name, ld.Key.KeyHash(algEd25519), ed25519.Sign(priv, []byte(r.Text))))
		r.SigValid = 0
	case "prime_other":
		// this log's next text, genuinely signed by ANOTHER configured log's key under that key's own name (and, below, submitted
		// under that other log's ID): refused there for its origin; it must not make the same signature bytes pass anywhere else
		if ol := w.otherKeyLog(ld); ol != nil {
			lines = append(lines, ol.Key.SignEd25519(r.Text))
		} else {
			lines = append(lines, w.Stranger.SignEd25519(r.Text))
		}
		r.SigValid = 0
	case "nosig":
		r.SigValid = 0
	default:
		lines = append(lines, w.Sign(signKey, cp))
	}
	switch op.M {
	case "xsig_unknown":
		n := int(op.MV % 1000)
		for i := 0; i < n; i++ {
			lines = append(lines, sigLine(fmt.Sprintf("junk%d", i), mr.Uint32(), mr.Bytes(64)))
		}
		switch {
		case len(lines) > maxNoteSigs:
			r.SigValid = 0 // more signature lines than the note format allows: not a note
		case len(lines)+len(w.WitKeys) > maxNoteSigs && r.SigValid == 1:
			r.SigValid = -2 // a note, but its cosigned form would not be one: it cannot be accepted, and how THAT is refused is left open; a rule that refuses it before any signing still applies
		}
	case "xsig_unknown_first":
		pre := []string{}
		n := 1 + int(op.MV%3)
		for i := 0; i < n; i++ {
			pre = append(pre, sigLine(fmt.Sprintf("junk%d", i), mr.Uint32(), mr.Bytes(64)))
		}
		lines = append(pre, lines...)
	case "xsig_otherlog":
		// a second line by another configured log's key (valid signature, but not this log's key)
		if len(w.Keys) > 1 {
			other := (ld.KeyIdx + 1) % len(w.Keys)
			lines = append(lines, w.Keys[other].SignEd25519(r.Text))
		}
	case "xsig_dup":
		lines = append(lines, lines[0])
	case "stale_wit":
		// carry the witness's lines from the stored checkpoint along (stale unless the text is identical)
		if st.Has && !st.Bad {
			if pn, err := ParseNote(st.Raw); err == nil {
				for _, s := range pn.Sigs {
					for _, wk := range w.WitKeys {
						if s.Name == wk.Key.Name {
							lines = append(lines, s.Line)
						}
					}
				}
			}
		}
	case "fake_wit":
		// garbage lines under the witness's own names and key hashes
		for _, wk := range w.WitKeys {
			alg := byte(algEd25519)
			n := 64
			if wk.Cosig {
				alg, n = algCosigV1, 72
			}
			lines = append(lines, sigLine(wk.Key.Name, wk.Key.KeyHash(alg), mr.Bytes(n)))
		}
	}
	r.CP = MakeNote(r.Text, lines...)
	switch op.M {
	case "badsig":
		// flip one bit inside the base64-decoded signature of the log line
		pn, _ := ParseNote(r.CP)
		s := pn.Sigs[0]
		sig := append([]byte{}, s.Sig...)
		sig[umod(op.MV, len(sig))] ^= 1 << (op.MV / 64 % 8)
		r.CP = MakeNote(r.Text, append([]string{sigLine(s.Name, s.Hash, sig)}, lines[1:]...)...)
		r.SigValid = 0
	case "flipbody":
		// flip a bit in the body after signing; the result is (almost surely) a text never signed
		pos := umod(op.MV, len(r.Text))
		bb := []byte(r.CP)
		bb[pos] ^= 1 << (op.MV / 1024 % 8)
		r.CP = bb
		r.SigValid = -1
	case "trunc":
		r.CP = r.CP[:umod(op.MV, len(r.CP))]
		r.SigValid = -1
	case "bytes":
		r.CP = mutateBytes(r.CP, op.MV)
		r.SigValid = -1
	case "splice_sig":
		// A text-and-signature pair the log really produced, with the boundary between the two moved: the signed text is cut short
		// after a line (the rest of it - extension lines - is put in front of the signature bytes instead). The shortened text is
		// a well-formed checkpoint that nobody signed. The pair comes from the stored checkpoint when that has extension lines
		// (the witness has verified exactly this text and signature before), else from the note just built.
		src := r.CP
		if st.Has && !st.Bad && strings.Count(st.Text, "\n") > 3 && op.MV%4 != 3 {
			src = st.Raw
			r.Size, r.Root = st.Size, st.Root
		}
		pn, _ := ParseNote(src)
		var ls *SigLine
		for i := range pn.Sigs {
			if pn.Sigs[i].Name == ld.Key.Name && pn.Sigs[i].Hash == ld.Key.KeyHash(algEd25519) {
				ls = &pn.Sigs[i]
				break
			}
		}
		tl := strings.SplitAfter(pn.Text, "\n")
		if ls != nil && len(tl) > 4 { // three checkpoint lines, at least one extension line, and the empty tail
			keep := 3 + umod(op.MV/4, len(tl)-4)
			head, rest := strings.Join(tl[:keep], ""), strings.Join(tl[keep:], "")
			r.Text = head
			r.CP = MakeNote(head, sigLine(ls.Name, ls.Hash, append([]byte(rest), ls.Sig...)))
		} else {
			r.CP = MakeNote(r.Text) // nothing to splice: no signature at all
		}
		r.SigValid = 0
	case "trailing_nl":
		// the valid note followed by blank lines: not a note any more (its signature block does not end the text)
		r.CP = append(append([]byte{}, r.CP...), bytes.Repeat([]byte("\n"), 1+int(op.MV%3))...)
		r.SigValid = 0
	case "unknownlog":
		r.Known = false
		r.LogID = LogID(fmt.Sprintf("unknown-%d", op.MV))
		switch op.MV % 5 {
		case 1:
			r.LogID = ld.ID[:len(ld.ID)-1] // near miss
		case 2:
			r.LogID = ""
		case 3:
			r.LogID = strings.ToUpper(ld.ID) // the same hex digits in another case are another ID
			if r.LogID == ld.ID {
				r.LogID = ld.ID + "0"
			}
		case 4:
			r.LogID = " " + ld.ID
		}
	case "prime_other":
		if ol := w.otherKeyLog(ld); ol != nil {
			r.LogID, r.LogIdx = ol.ID, ol.Idx
		}
	case "crosslog":
		// this log's valid checkpoint submitted under another configured log's ID
		if len(w.Logs) > 1 {
			tgt := w.Logs[(op.L+1+umod(op.MV, (len(w.Logs)-1)))%len(w.Logs)]
			r.LogID, r.LogIdx = tgt.ID, tgt.Idx
			r.SigValid = 0 // origin (and maybe key) is not the target's
		}
	}
	// old size
	switch op.Old {
	case "zero":
		r.Old = 0
	case "sub":
		r.Old = r.Size
	case "sub+1":
		r.Old = satAdd(r.Size, 1)
	case "cur+1":
		r.Old = satAdd(cur, 1)
	case "cur-1":
		if cur > 0 {
			r.Old = cur - 1
		}
	case "abs":
		r.Old = op.OldV
	case "max":
		r.Old = maxU64
	case "2^63":
		r.Old = 1 << 63
	default:
		r.Old = cur
	}
	// proof
	from := cur
	honest := func(t *RefTree, a, b uint64) [][]byte {
		if a == 0 || a >= b || b > 1<<63 {
			return [][]byte{}
		}
		return t.ConsistencyProof(a, b)
	}
	pr := NewRng(splitmix(op.PV ^ 0x1234))
	switch op.P {
	case "empty":
		r.Proof = [][]byte{}
	case "nil":
		r.Proof = nil
	case "honest_old":
		r.Proof = honest(tree, r.Old, r.Size)
	case "trunk":
		r.Proof = honest(ld.Branches[0], from, r.Size)
	case "othersizes":
		a, b := from, r.Size
		switch op.PV % 4 {
		case 0:
			a = satAdd(a, 1)
		case 1:
			if a > 1 {
				a--
			}
		case 2:
			b = satAdd(b, 1)
		case 3:
			if b > 1 {
				b--
			}
		}
		r.Proof = honest(tree, a, b)
	case "flip":
		r.Proof = honest(tree, from, r.Size)
		if len(r.Proof) > 0 {
			i := umod(op.PV, len(r.Proof))
			e := append([]byte{}, r.Proof[i]...)
			e[umod(op.PV/64, len(e))] ^= 1 << (op.PV / 4096 % 8)
			r.Proof[i] = e
		}
	case "drop":
		r.Proof = honest(tree, from, r.Size)
		if len(r.Proof) > 0 {
			i := umod(op.PV, len(r.Proof))
			r.Proof = append(append([][]byte{}, r.Proof[:i]...), r.Proof[i+1:]...)
		}
	case "add":
		r.Proof = append(honest(tree, from, r.Size), pr.Bytes(32))
	case "addfront":
		r.Proof = append([][]byte{pr.Bytes(32)}, honest(tree, from, r.Size)...)
	case "dup":
		r.Proof = honest(tree, from, r.Size)
		if len(r.Proof) > 0 {
			i := umod(op.PV, len(r.Proof))
			r.Proof = append(append(append([][]byte{}, r.Proof[:i+1]...), r.Proof[i]), r.Proof[i+1:]...)
		}
	case "swap":
		r.Proof = honest(tree, from, r.Size)
		if len(r.Proof) > 1 {
			i := umod(op.PV, (len(r.Proof) - 1))
			r.Proof[i], r.Proof[i+1] = r.Proof[i+1], r.Proof[i]
		}
	case "badlen":
		r.Proof = honest(tree, from, r.Size)
		if len(r.Proof) > 0 {
			i := umod(op.PV, len(r.Proof))
			if op.PV/64%2 == 0 {
				r.Proof[i] = r.Proof[i][:31]
			} else {
				r.Proof[i] = append(append([]byte{}, r.Proof[i]...), 0)
			}
		}
	case "random":
		n := int(op.PV % 8)
		r.Proof = [][]byte{}
		for i := 0; i < n; i++ {
			r.Proof = append(r.Proof, pr.Bytes(32))
		}
	case "long":
		// far more hashes than any consistency proof between 64-bit sizes has (at most 2*64), or just beyond 64/65/128
		n := []int{64, 65, 66, 67, 127, 128, 129, 130, 200, 300}[op.PV%10]
		r.Proof = [][]byte{}
		for i := 0; i < n; i++ {
			r.Proof = append(r.Proof, pr.Bytes(32))
		}
	case "honest_padded":
		// the correct proof followed by junk up to a round number of hashes
		r.Proof = honest(tree, from, r.Size)
		for len(r.Proof) < []int{64, 65, 66, 129}[op.PV%4] {
			r.Proof = append(r.Proof, pr.Bytes(32))
		}
	case "prepend_old_root":
		// the correct proof with the stored root put in front (what a proof builder that "always leads with the old root" sends)
		r.Proof = append([][]byte{append([]byte{}, st.Root...)}, honest(tree, from, r.Size)...)
	case "append_new_root":
		r.Proof = append(honest(tree, from, r.Size), append([]byte{}, r.Root...))
	case "prepend_new_root":
		r.Proof = append([][]byte{append([]byte{}, r.Root...)}, honest(tree, from, r.Size)...)
	case "append_old_root":
		r.Proof = append(honest(tree, from, r.Size), append([]byte{}, st.Root...))
	case "roots":
		// the two roots themselves as "proof"
		r.Proof = [][]byte{append([]byte{}, st.Root...), append([]byte{}, r.Root...)}
	default: // honest: this branch's own proof from the stored size
		r.Proof = honest(tree, from, r.Size)
	}
	r.Desc = fmt.Sprintf("log%d b%d size=%d old=%d proof=%s/%d m=%s", op.L, r.Branch, r.Size, r.Old, op.P, len(r.Proof), op.M)
	return r
}

// mutateBytes applies one seeded byte-level mutation.
func mutateBytes(b []byte, seed uint64) []byte {
	r := NewRng(seed)
	out := append([]byte{}, b...)
	if len(out) == 0 {
		return out
	}
	switch r.IntN(8) {
	case 0: // bit flip
		out[r.IntN(len(out))] ^= 1 << r.IntN(8)
	case 1: // truncate
		out = out[:r.IntN(len(out))]
	case 2: // delete a line
		ls := strings.SplitAfter(string(out), "\n")
		i := r.IntN(len(ls))
		out = []byte(strings.Join(append(ls[:i:i], ls[i+1:]...), ""))
	case 3: // duplicate a line
		ls := strings.SplitAfter(string(out), "\n")
		i := r.IntN(len(ls))
		out = []byte(strings.Join(append(ls[:i+1:i+1], ls[i:]...), ""))
	case 4: // swap two lines
		ls := strings.SplitAfter(string(out), "\n")
		if len(ls) > 1 {
			i, j := r.IntN(len(ls)), r.IntN(len(ls))
			ls[i], ls[j] = ls[j], ls[i]
		}
		out = []byte(strings.Join(ls, ""))
	case 5: // insert random bytes
		i := r.IntN(len(out) + 1)
		out = append(out[:i:i], append(r.Bytes(1+r.IntN(4)), out[i:]...)...)
	case 6: // overwrite a byte
		out[r.IntN(len(out))] = byte(r.Uint32())
	case 7: // append junk
		out = append(out, r.Bytes(1+r.IntN(8))...)
	}
	return out
}

// modelVerdict is the decision table of the witness protocol (c2sp.org/tlog-witness,
// as restated by property C09), in rule order. "any" marks the cells the
// properties leave open; "refuse" means a refusal whose identity is open.
func modelVerdict(known bool, sigValid int, st Stored, size uint64, root []byte, old uint64, proof [][]byte) string {
	if !known {
		return "unknown_log"
	}
	if sigValid == 0 {
		return "no_sig"
	}
	if sigValid == -2 && !st.Bad {
		// validly signed but not cosignable: the four refusals that come before any signing are what they are for any other
		// validly signed checkpoint; only where the request would otherwise be accepted is the answer open
		switch v := modelVerdict(known, 1, st, size, root, old, proof); v {
		case "old_too_large", "stale", "root_mismatch", "bad_proof":
			return v
		}
		return "any"
	}
	if sigValid < 0 || st.Bad {
		return "any"
	}
	if !st.Has {
		if old == 0 && len(proof) == 0 {
			return "accept"
		}
		return "any"
	}
	if old > size {
		return "old_too_large"
	}
	if old != st.Size {
		return "stale"
	}
	if size == st.Size {
		if string(root) != string(st.Root) {
			return "root_mismatch"
		}
		if len(proof) == 0 {
			return "accept"
		}
		if size == 0 {
			return "refuse"
		}
		return "bad_proof"
	}
	if st.Size == 0 {
		return "any" // stored size 0 < submitted size: C08's business
	}
	if RefVerifyConsistency(st.Size, size, proof, st.Root, root) {
		return "accept"
	}
	return "bad_proof"
}

// classify maps a real Update outcome to the model's vocabulary.
func classify(err error) string {
	switch {
	case err == nil:
		return "accept"
	case errors.Is(err, witness.ErrUnknownLog):
		return "unknown_log"
	case errors.Is(err, witness.ErrNoValidSignature):
		return "no_sig"
	case errors.Is(err, witness.ErrOldSizeInvalid):
		return "old_too_large"
	case errors.Is(err, witness.ErrCheckpointStale):
		return "stale"
	case errors.Is(err, witness.ErrRootMismatch):
		return "root_mismatch"
	case errors.Is(err, witness.ErrInvalidProof):
		return "bad_proof"
	}
	return "other"
}
