package verifsim

import (
	"strings"
	"sync"

	"github.com/transparency-dev/witness/monitoring"
)

// recFactory is the recording metric factory installed once per process, before
// the first witness exists (counters are created once from the process-wide
// factory). Checks work on per-run deltas.
type recFactory struct {
	mu   sync.Mutex
	vals map[string]float64
}

type recCounter struct {
	f    *recFactory
	name string
}

func (f *recFactory) NewCounter(name, help string, labelNames ...string) monitoring.Counter {
	return &recCounter{f: f, name: name}
}

func (c *recCounter) Inc(labelVals ...string) {
	c.f.mu.Lock()
	c.f.vals[c.name+"|"+strings.Join(labelVals, "|")]++
	c.f.mu.Unlock()
}

func (f *recFactory) Snapshot() map[string]float64 {
	f.mu.Lock()
	defer f.mu.Unlock()
	m := make(map[string]float64, len(f.vals))
	for k, v := range f.vals {
		m[k] = v
	}
	return m
}

func (f *recFactory) Delta(prev map[string]float64) map[string]float64 {
	now := f.Snapshot()
	d := map[string]float64{}
	for k, v := range now {
		if v != prev[k] {
			d[k] = v - prev[k]
		}
	}
	return d
}

var recorder = &recFactory{vals: map[string]float64{}}

// bothFactory fans every counter out to the recording factory (read by the oracles) and to the repository's
// real Prometheus binding (monitoring/prometheus over client_golang), so that the metrics backend production
// uses is on the path of every request the simulation makes - a label value it rejects panics here as it would there.
type bothFactory struct {
	a, b monitoring.MetricFactory
}

type bothCounter struct{ a, b monitoring.Counter }

func (f bothFactory) NewCounter(name, help string, labelNames ...string) monitoring.Counter {
	return bothCounter{f.a.NewCounter(name, help, labelNames...), f.b.NewCounter(name, help, labelNames...)}
}

func (c bothCounter) Inc(labelVals ...string) {
	c.a.Inc(labelVals...)
	c.b.Inc(labelVals...)
}
