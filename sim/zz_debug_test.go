//go:build go1.25

package verifsim

import (
	"encoding/json"
	"fmt"
	"os"
	"testing"
)

func TestDebugReplay(t *testing.T) {
	path := os.Getenv("VERIF_DEBUG_REPLAY")
	if path == "" {
		t.Skip()
	}
	b, _ := os.ReadFile(path)
	var rf ReplayFile
	json.Unmarshal(b, &rf)
	sc := scenarios[rf.Property]
	out := sc.Run(t, rf.Plan)
	for _, v := range out.Viol {
		fmt.Println("VIOL", v.Class, v.Detail)
	}
	fmt.Println("EVENTS", out.Events)
	fmt.Println("INFRA", out.Infra)
}
