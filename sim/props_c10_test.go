//go:build go1.25

package verifsim

import (
	"bytes"
	"context"
	"encoding/base64"
	"errors"
	"fmt"
	"io"
	"math"
	"net/http"
	"net/http/httptest"
	"sort"
	"strings"
	"testing"
	"testing/synctest"
	"time"

	f_note "github.com/transparency-dev/formats/note"
	"github.com/transparency-dev/witness/internal/config"
	"github.com/transparency-dev/witness/internal/feeder"
	"github.com/transparency-dev/witness/internal/feeder/bastion"
	"github.com/transparency-dev/witness/internal/persistence"
	"github.com/transparency-dev/witness/internal/persistence/inmemory"
	psql "github.com/transparency-dev/witness/internal/persistence/sql"
	"github.com/transparency-dev/witness/internal/witness"
	"github.com/transparency-dev/witness/omniwitness"
	"golang.org/x/mod/sumdb/note"
	"golang.org/x/time/rate"
)

// wireBody writes an add-checkpoint body as c2sp.org/tlog-witness describes it.
func wireBody(old uint64, proof [][]byte, cp []byte) []byte {
	var b bytes.Buffer
	fmt.Fprintf(&b, "old %d\n", old)
	for _, h := range proof {
		b.WriteString(base64.StdEncoding.EncodeToString(h))
		b.WriteByte('\n')
	}
	b.WriteByte('\n')
	b.Write(cp)
	return b.Bytes()
}

// countingWitness sits between the handler and the real adapter and counts calls.
type countingWitness struct {
	in    feeder.Witness
	calls []*feedCall
}

func (c *countingWitness) GetLatestCheckpoint(ctx context.Context, id string) ([]byte, error) {
	return c.in.GetLatestCheckpoint(ctx, id)
}
func (c *countingWitness) Update(ctx context.Context, id string, old uint64, cp []byte, proof [][]byte) ([]byte, error) {
	fc := &feedCall{Kind: "U", Old: old, CP: append([]byte{}, cp...), Proof: proof}
	c.calls = append(c.calls, fc)
	if c.in == nil {
		return nil, errors.New("recording witness: no backend")
	}
	fc.Out, fc.Err = c.in.Update(ctx, id, old, cp, proof)
	return fc.Out, fc.Err
}

// refBodyMalformed is the harness's own reading of the c2sp.org/tlog-witness body format: true only when the
// body is clearly malformed (so 400 is the only right answer); a body that a mutation happened to leave
// well-formed, or whose spelling is in the grey zone, returns false and is left unconstrained.
func refBodyMalformed(body []byte) bool {
	if len(body) > 16*1024 {
		return true
	}
	i := bytes.IndexByte(body, '\n')
	if i < 0 {
		return true
	}
	line := string(body[:i])
	digits, ok := strings.CutPrefix(line, "old ")
	if !ok || digits == "" {
		return true
	}
	for _, c := range digits {
		if c < '0' || c > '9' {
			return c != ' ' && c != '\r' && c != '+' && c != '\t' // junk after/among the digits is malformed; blanks, CR, '+' are grey
		}
	}
	rest := body[i+1:]
	for {
		j := bytes.IndexByte(rest, '\n')
		if j < 0 {
			return true // no blank separator before the end
		}
		l := strings.TrimSuffix(string(rest[:j]), "\r")
		rest = rest[j+1:]
		if l == "" {
			break
		}
		if _, err := base64.StdEncoding.DecodeString(l); err != nil {
			return true
		}
	}
	// the checkpoint must at least have a first line
	return !bytes.Contains(rest, []byte("\n"))
}

var documentedStatuses = map[int]bool{200: true, 400: true, 403: true, 404: true, 409: true, 422: true, 429: true, 500: true}

// ---------------------------------------------------------------- C10

type c10Req struct {
	Op      Op
	At      time.Duration
	Kind    string // update | malformed:<kind>
	Body    []byte
	Req     *Request
	Want    string
	St      Stored
	Status  int
	CType   string
	RBody   []byte
	Calls   int
	After   Stored
	T       time.Time
	Fault   string            // the storage fault that fired while this request was served ("" = none)
	Overlap bool              // the request overlapped another one (c10Pairs): only the pair's final state is observable
	Snap    map[string]string // every configured log's latest checkpoint after the request
	Logs    []string          // the witness's log list after the request
}

func c10Malform(kind string, body []byte, r *Rng) []byte {
	switch kind {
	case "nosep":
		i := bytes.Index(body, []byte("\n\n"))
		return append(append([]byte{}, body[:i+1]...), body[i+2:]...)
	case "nooldline":
		i := bytes.IndexByte(body, '\n')
		return body[i+1:]
	case "oldword":
		return append([]byte("size"), body[3:]...)
	case "nodigits":
		i := bytes.IndexByte(body, '\n')
		return append([]byte("old "), body[i:]...)
	case "badb64":
		i := bytes.IndexByte(body, '\n')
		return append(append(append([]byte{}, body[:i+1]...), []byte("!!!not base64!!!\n")...), body[i+1:]...)
	case "empty":
		return []byte{}
	case "onlyold":
		return []byte("old 0\n")
	case "cp_no_newline":
		return []byte("old 0\n\nsim.example/log0")
	case "truncated":
		i := bytes.Index(body, []byte("\n\n"))
		if i <= 0 {
			return body[:1]
		}
		return body[:r.IntN(i+1)]
	case "random":
		return r.Bytes(1 + r.IntN(200))
	case "toolarge":
		return append(append([]byte{}, body...), bytes.Repeat([]byte("x"), 17*1024)...)
	}
	return body
}

var c10MalformKinds = []string{"nosep", "nooldline", "oldword", "nodigits", "badb64", "empty", "onlyold", "cp_no_newline", "truncated", "random", "toolarge"}

type c10Result struct {
	W     *World
	reqs  []*c10Req
	rate  float64
	infra string
	simT  time.Duration
}

func openStoreFor(p *Plan) (persistence.LogStatePersistence, func(), error) {
	if p.Cfg.Store != "sqlite" {
		return inmemory.NewPersistence(), func() {}, nil
	}
	e := &Engine{plan: p}
	if err := e.openStore(); err != nil {
		return nil, nil, err
	}
	return e.inner, e.closeStore, nil
}

func c10Exec(t *testing.T, p *Plan) (r *c10Result) {
	r = &c10Result{}
	defer func() {
		if x := recover(); x != nil {
			r.infra = fmt.Sprintf("bubble ended abnormally: %v", x)
			dumpGoroutines()
		}
	}()
	synctest.Test(t, func(t *testing.T) {
		pinGlobalRand(p.Seed)
		w := NewWorld(p)
		r.W = w
		store, closeStore, err := openStoreFor(p)
		if err != nil {
			r.infra = err.Error()
			return
		}
		defer closeStore()
		known, _ := w.KnownLogs()
		signers, _ := w.Signers()
		realW, err := witness.New(witness.Opts{Persistence: store, Signers: signers, KnownLogs: known})
		if err != nil {
			r.infra = err.Error()
			return
		}
		// the witness's published key: the cosignature/v1 form if configured, as production does
		pub := w.WitKeys[0]
		for _, wk := range w.WitKeys {
			if wk.Cosig {
				pub = wk
				break
			}
		}
		var witV note.Verifier
		if pub.Cosig {
			witV, err = f_note.NewVerifierForCosignatureV1(pub.Key.VerifierString())
		} else {
			witV, err = note.NewVerifier(pub.Key.VerifierString())
		}
		if err != nil {
			r.infra = err.Error()
			return
		}
		var logs []config.Log
		nHandlerLogs := len(w.Logs) - int(p.Cfg.Extra["unlisted"]) // the last log(s) are known to the witness but not to the endpoint
		for i, ld := range w.Logs {
			if i >= nHandlerLogs && i > 0 {
				continue
			}
			cl, err := config.NewLog(ld.Origin, ld.Key.VerifierString(), "http://unused/")
			if err != nil {
				r.infra = err.Error()
				return
			}
			logs = append(logs, cl)
		}
		r.rate = float64(p.Cfg.Extra["rate"])
		cw := &countingWitness{in: omniwitness.VerifWitnessAdapter(realW)}
		h := http.MaxBytesHandler(bastion.VerifNewHandler(bastion.Config{Logs: logs, WitnessVerifier: witV,
			Limits: bastion.RequestLimits{TotalPerSecond: rate.Limit(r.rate)}}, cw), 16*1024)
		tracked := map[string]Stored{}
		reqFaults := map[int]string{}
		for _, f := range p.Faults {
			var i int
			if _, err := fmt.Sscanf(f.At, "req:%d", &i); err == nil {
				reqFaults[i] = f.Kind
			}
		}
		rng := NewRng(p.Seed ^ 0xc10)
		start := time.Now()
		for _, op := range p.Ops {
			if op.K == "jump" {
				time.Sleep(time.Duration(op.Ms) * time.Millisecond)
				continue
			}
			src := w.Logs[((op.L%len(w.Logs))+len(w.Logs))%len(w.Logs)]
			req := resolveUpdate(w, op, tracked[src.ID])
			cr := &c10Req{Op: op, Req: req, Kind: "update", At: time.Since(start), T: time.Now()}
			cr.Body = wireBody(req.Old, req.Proof, req.CP)
			// which log does the endpoint think this is? the first line of the checkpoint decides
			first, _, _ := strings.Cut(string(req.CP), "\n")
			target := w.LogByID(LogID(first))
			listed := false
			for _, cl := range logs {
				if target != nil && cl.ID == target.ID {
					listed = true
				}
			}
			if target != nil {
				cr.St = tracked[target.ID]
			}
			switch {
			case op.P == "malformed":
				cr.Kind = "malformed:" + c10MalformKinds[umod(op.PV, len(c10MalformKinds))]
				cr.Body = c10Malform(strings.TrimPrefix(cr.Kind, "malformed:"), cr.Body, rng)
				cr.Want = "any"
				if refBodyMalformed(cr.Body) {
					cr.Want = "malformed"
				}
			case !strings.Contains(string(req.CP), "\n"):
				cr.Want = "malformed"
			case !listed:
				cr.Want = "unknown_origin"
			default:
				// the endpoint submits under ID(first line): verdict by the model for that log
				sigValid := req.SigValid
				if target.ID != req.LogID {
					sigValid = -1 // cross-log constructions: the endpoint derives the ID from the text, not from our label
				}
				cr.Want = modelVerdict(true, sigValid, cr.St, req.Size, req.Root, req.Old, req.Proof)
				if len(cr.Body) > 16*1024 {
					cr.Want = "any"
				}
				for _, h := range req.Proof {
					if len(h) == 0 {
						cr.Want = "any" // the wire format cannot carry a zero-length hash (it would be the separator)
					}
				}
			}
			before := len(cw.calls)
			rec := httptest.NewRecorder()
			hr := httptest.NewRequest(http.MethodPost, "/add-checkpoint", bytes.NewReader(cr.Body))
			if rng.Chance(0.3) {
				// the body arrives in pieces, as it does from a network (a read may end anywhere, also in the middle of a line)
				hr = httptest.NewRequest(http.MethodPost, "/add-checkpoint", &faultyReader{data: cr.Body, chunks: NewRng(rng.Uint64()), maxChunk: Pick(rng, 1, 7, 100, 1000), endAt: -1, errAt: -1})
				hr.ContentLength = -1
			}
			hr.RemoteAddr = "bastion:1"
			if fk := reqFaults[len(r.reqs)]; fk != "" && p.Cfg.Store == "sqlite" {
				// one storage fault inside the database driver while this request is served (SQLite reporting busy, an I/O error, a full disk)
				fop, fkind, _ := strings.Cut(fk, "/")
				crr := cr
				mainDrvFault = func(op, arg string) error {
					if op != fop || crr.Fault != "" {
						return nil
					}
					crr.Fault = fk
					return injected(fkind)
				}
			}
			h.ServeHTTP(rec, hr)
			mainDrvFault = nil
			cr.Status, cr.CType, cr.RBody = rec.Code, rec.Header().Get("Content-Type"), rec.Body.Bytes()
			cr.Calls = len(cw.calls) - before
			if target != nil {
				if cur, err := realW.GetCheckpoint(target.ID); err == nil {
					cr.After = parseStored(cur)
					tracked[target.ID] = cr.After
				}
			}
			cr.Snap = map[string]string{}
			for _, l := range w.Logs {
				if cur, err := realW.GetCheckpoint(l.ID); err == nil {
					cr.Snap[l.ID] = string(cur)
				}
			}
			cr.Logs, _ = realW.GetLogs()
			sort.Strings(cr.Logs)
			r.reqs = append(r.reqs, cr)
		}
		r.simT = time.Since(start)
	})
	return r
}

func oracleC10(p *Plan, r *c10Result) []Violation {
	var out []Violation
	w := r.W
	add := func(cls, sig string, i int, d string) {
		out = append(out, Violation{Class: cls, Sig: cls + "/" + sig, OpIdx: i, Detail: d})
	}
	pub := w.WitKeys[0]
	for _, wk := range w.WitKeys {
		if wk.Cosig {
			pub = wk
			break
		}
	}
	wantStatus := map[string]int{"malformed": 400, "unknown_origin": 404, "no_sig": 403, "old_too_large": 400, "stale": 409, "root_mismatch": 409, "bad_proof": 422, "accept": 200}
	var lastReq time.Time
	var served []time.Time
	for i, q := range r.reqs {
		silence := q.T.Sub(lastReq)
		first := lastReq.IsZero()
		lastReq = q.T
		if !documentedStatuses[q.Status] {
			add("status_mismatch", fmt.Sprintf("undocumented/%d", q.Status), i, fmt.Sprintf("request %d (%s) answered %d, which is not one of the endpoint's documented statuses", i, q.Kind, q.Status))
			continue
		}
		if q.Status == 429 {
			if q.Calls != 0 || string(q.After.Raw) != string(q.St.Raw) {
				add("processed_while_429", "processed", i, fmt.Sprintf("request %d was answered 429 but the witness was called %d times / state changed", i, q.Calls))
			}
			if r.rate >= 1 && (first || silence.Seconds() >= 1/r.rate+0.001) && silence < 1000*time.Hour {
				add("starved_after_idle", "429_after_silence", i, fmt.Sprintf("request %d came after %v of silence at a configured rate of %v/s and was still pushed back", i, silence, r.rate))
			}
			// pushed-back requests are "not processed": they use up nothing. So whenever no request has been SERVED for 1/rate
			// seconds, any token bucket of that rate holds a whole token again and the next request is not over the rate
			if r.rate >= 1 && len(served) > 0 {
				if idle := q.T.Sub(served[len(served)-1]); idle.Seconds() >= 1/r.rate+0.001 && idle < 1000*time.Hour {
					add("starved_after_idle", "429_without_recent_service", i, fmt.Sprintf("request %d was pushed back although the last request that was served dates back %v at a configured rate of %v/s (requests answered 429 in between were not processed and cannot count against the rate)", i, idle, r.rate))
				}
			}
			continue
		}
		served = append(served, q.T)
		if r.rate == 0 {
			add("rate_exceeded", "zero_rate", i, fmt.Sprintf("request %d was processed (status %d) although the configured rate is 0 (no requests are to be served)", i, q.Status))
			continue
		}
		// any token bucket of rate r admits at most ceil(r) + r*T requests in a window of length T
		for j := 0; j < len(served)-1; j++ {
			win := q.T.Sub(served[j]).Seconds()
			n := len(served) - j
			if float64(n) > math.Ceil(r.rate)+r.rate*win+1e-9 {
				add("rate_exceeded", "window", i, fmt.Sprintf("%d requests were served within %.3fs at a configured rate of %v/s", n, win, r.rate))
				break
			}
		}
		if q.Want == "any" || q.Want == "refuse" {
			if q.Want == "refuse" && q.Status == 200 {
				add("status_mismatch", "refuse/got=200", i, "a request the protocol refuses was answered 200: "+q.Req.Desc)
			}
			continue
		}
		ws := wantStatus[q.Want]
		if q.Fault != "" && q.Status == 500 {
			// a storage failure while serving: 500 is the endpoint's answer for it, and nothing may have changed
			if string(q.After.Raw) != string(q.St.Raw) {
				add("status_mismatch", "state_changed_on_500", i, fmt.Sprintf("request %d answered 500 (storage fault %s) but the witness state changed", i, q.Fault))
			}
			continue
		}
		if q.Status != ws {
			add("status_mismatch", fmt.Sprintf("%s/got=%d/want=%d", q.Want, q.Status, ws), i, fmt.Sprintf("request %d (%s; %s; stored {%s}) answered %d, the protocol says %d (%s)", i, q.Kind, q.Req.Desc, cpBrief(q.St), q.Status, ws, q.Want))
			continue
		}
		switch q.Want {
		case "accept":
			if q.After.Text != q.Req.Text && !q.Overlap {
				add("status_mismatch", "200_without_accept", i, fmt.Sprintf("request %d answered 200 but the witness does not hold the submitted checkpoint afterwards", i))
			}
			lines := strings.SplitAfter(string(q.RBody), "\n")
			nsig := 0
			for _, l := range lines {
				if l == "" {
					continue
				}
				pn, err := ParseNote(MakeNote(q.Req.Text, l))
				ok := err == nil && len(pn.Sigs) == 1
				if ok {
					if pub.Cosig {
						ok, _ = pub.Key.VerifyCosigV1(q.Req.Text, pn.Sigs[0])
					} else {
						ok = pub.Key.VerifyEd25519(q.Req.Text, pn.Sigs[0])
					}
				}
				if !ok {
					add("bad_cosignature_body", "line", i, fmt.Sprintf("request %d: 200 body line %q is not a valid cosignature by the witness's published key over the submitted text", i, l))
				}
				nsig++
			}
			if nsig == 0 {
				add("bad_cosignature_body", "empty", i, fmt.Sprintf("request %d: 200 with an empty body", i))
			}
		case "stale":
			if q.CType != "text/x.tlog.size" || string(q.RBody) != fmt.Sprintf("%d\n", q.St.Size) {
				add("status_mismatch", "stale_body", i, fmt.Sprintf("request %d: 409 for a stale old size must carry Content-Type text/x.tlog.size and body %q; got %q %q", i, fmt.Sprintf("%d\n", q.St.Size), q.CType, q.RBody))
			}
		case "malformed", "unknown_origin":
			if q.Calls != 0 {
				add("status_mismatch", q.Want+"_reached_witness", i, fmt.Sprintf("request %d (%s) was answered %d yet the witness was called", i, q.Kind, q.Status))
			}
		}
		if q.Status != 200 && string(q.After.Raw) != string(q.St.Raw) && !q.Overlap {
			add("status_mismatch", "state_changed_on_refusal", i, fmt.Sprintf("request %d answered %d but the witness state changed", i, q.Status))
		}
	}
	return out
}

func init() {
	register(&Scenario{
		Prop:  "C10",
		Level: "exploration",
		Rule:  "the real add-checkpoint handler (reached through the add-only -overlay constructor, built exactly as FeedBastion builds it) behind http.MaxBytesHandler(16 KiB), in front of the real witness through the real witnessAdapter, on both stores, inside a synctest bubble; seeded request sequences at seeded simulated instants: well-formed bodies for every verdict class in every state reached through the same endpoint, malformed variants (11 kinds), origins the endpoint does not list, bursts above the configured rate and silences; oracle: status table of c2sp.org/tlog-witness from the sequential model, cosignature body verified with the harness's verifier, 429 => witness not called, token-bucket upper bound ceil(r)+r*T over every window, service after 1/r of silence; non-trivial = a request that reached a witness holding a checkpoint, or a 429; distinct = distinct (verdict class, status, state class, store) tuples",
		Gen: func(r *Rng, tier string, n uint64) *Plan {
			if n%8 == 6 {
				// requests that overlap inside the endpoint: pairs computed from the same state, the first held inside the witness
				// while the second arrives (same checkpoint with another proof, a competing step, another log)
				pf := Profile{MaxLogs: 2, ShareKeys: true, MinOps: 1, MaxOps: 4, Adversarial: 0.3, Mutations: 0}
				p := &Plan{Scenario: "pairs"}
				p.Cfg = genConfig(r, pf)
				p.Cfg.Extra = map[string]int64{"rate": 1000000000}
				p.Ops = genHistory(r, pf, &p.Cfg)
				for k := r.Range(1, 3); k > 0; k-- {
					l := r.IntN(len(p.Cfg.Logs))
					a := genUpdate(r, Profile{Adversarial: 0.3, Mutations: 0}, l, len(p.Cfg.Logs[l].Forks)+1)
					a.M, a.MV = "", 0
					b := a
					switch r.IntN(4) {
					case 0: // the same checkpoint and old size with other proof lines
						b.P, b.PV = Pick(r, "flip", "random", "empty", "long", "honest", "drop", "add"), r.Uint64()
					case 1: // a competing step from the same old size
						b = genUpdate(r, Profile{Adversarial: 0.3, Mutations: 0}, l, len(p.Cfg.Logs[l].Forks)+1)
						b.M, b.MV = "", 0
					case 2: // another log
						b = genUpdate(r, Profile{Adversarial: 0.3, Mutations: 0}, r.IntN(len(p.Cfg.Logs)), 1)
						b.B, b.M, b.MV = 0, "", 0
					default: // the very same request twice
					}
					if r.Bool() {
						a, b = b, a
					}
					a.C, b.C = 1, 0
					p.Ops = append(p.Ops, a, b)
					if r.Chance(0.5) {
						p.Ops = append(p.Ops, Op{K: "update", L: l, D: uint64(r.Range(0, 3))})
					}
				}
				return p
			}
			pf := Profile{MaxLogs: 3, ShareKeys: true, MinOps: 4, MaxOps: 16, Adversarial: 0.6, Mutations: 0.2, BigSizes: r.Chance(0.15)}
			p := &Plan{Scenario: "bastion"}
			p.Cfg = genConfig(r, pf)
			p.Cfg.WitKeys = Pick(r, []string{"ed:0", "cosig:0"}, []string{"cosig:0"}, []string{"ed:0"}, []string{"ed:0", "cosig:0"})
			p.Cfg.Extra = map[string]int64{"rate": int64(Pick(r, 0, 1, 2, 3, 5, 10, 50, 1000, 1000)), "unlisted": int64(r.IntN(2))}
			ops := genHistory(r, pf, &p.Cfg)
			for _, o := range ops {
				if o.K != "update" {
					continue
				}
				if o.M == "unknownlog" || o.M == "crosslog" || o.M == "xsig_unknown" || o.M == "prime_other" {
					o.M = ""
				}
				if r.Chance(0.12) {
					o.P, o.PV = "malformed", r.Uint64()
				}
				switch r.Weighted(30, 40, 20, 10) {
				case 0: // burst: no time passes
				case 1:
					p.Ops = append(p.Ops, Op{K: "jump", Ms: int64(r.Range(1, 1200))})
				case 2:
					p.Ops = append(p.Ops, Op{K: "jump", Ms: int64(r.Range(1000, 5000))})
				default:
					p.Ops = append(p.Ops, Op{K: "jump", Ms: int64(Pick(r, 1, 999, 1000, 1001, 60000, 3600000))})
				}
				p.Ops = append(p.Ops, o)
			}
			if p.Cfg.Store == "sqlite" && r.Chance(0.5) {
				// storage faults inside the database driver while a request is being served
				p.Cfg.Seam = "driver" // = open the store through the fault-injecting driver
				nreq := 0
				for _, o := range p.Ops {
					if o.K == "jump" {
						continue
					}
					if r.Chance(0.2) {
						p.Faults = append(p.Faults, Fault{At: fmt.Sprintf("req:%d", nreq), Kind: Pick(r, "Begin", "Query", "Next", "Next", "Exec", "Commit", "Rollback") + "/" + Pick(r, "busy", "locked", "ioerr", "full", "plain")})
					}
					nreq++
				}
			}
			return p
		},
		Run: func(t *testing.T, p *Plan) *Outcome {
			out := &Outcome{Stats: newStats()}
			var r *c10Result
			if p.Scenario == "pairs" {
				r = c10Pairs(t, p)
			} else {
				r = c10Exec(t, p)
			}
			if r.infra != "" {
				out.Infra = []string{r.infra}
				return out
			}
			out.Viol = oracleC10(p, r)
			for _, q := range r.reqs {
				if q.Overlap {
					out.Stats.Probes["overlapping_requests"]++
				}
			}
			out.Stats.SimNanos = int64(r.simT)
			var hs []string
			for _, q := range r.reqs {
				st := "none"
				if q.St.Has {
					st = "stored"
				}
				if q.St.Has || q.Status == 429 {
					out.Distinct = append(out.Distinct, fmt.Sprintf("%s/%d/%s/%s", q.Want, q.Status, st, p.Cfg.Store))
				}
				out.Stats.Probes[fmt.Sprintf("status_%d", q.Status)]++
				out.Stats.Probes["want_"+q.Want]++
				if q.Fault != "" {
					out.Stats.Fired["storage_fault_while_serving/"+q.Fault]++
				}
				if q.Status == 429 {
					out.Stats.Fired["rate_limit_pushback"]++
				}
				hs = append(hs, fmt.Sprintf("@%v %s want=%s -> %d", q.At, q.Kind, q.Want, q.Status))
				out.Events = append(out.Events, fmt.Sprintf("%d %s %d", len(out.Events), q.Want, q.Status))
			}
			out.Sample = map[string]any{"seed": p.Seed, "store": p.Cfg.Store, "rate_per_s": r.rate, "requests": hs}
			return out
		},
		Components: map[string]string{
			"internal/feeder/bastion addHandler (ServeHTTP, handleUpdate, parseBody, rate limiter)": "real, constructed by an add-only //go:build verif file injected with -overlay",
			"http.MaxBytesHandler(16 KiB)":                                                "real, wrapped by the harness as connectAndServe wraps it",
			"omniwitness.witnessAdapter, internal/witness, both stores":                   "real",
			"bastion connection (TLS 1.3 dial, HTTP/2 reverse serving, reconnect ticker)": "NOT run here (needs a real socket; see DESIGN.md 3.9)",
			"clock, x/time/rate": "synctest fake clock",
		},
		Assumptions: []string{"the ID the endpoint files a request under is hex(sha256('o:'+first line)); requests whose first line is not a listed origin must be answered 404 without reaching the witness", "rate oracle uses only what any token bucket of the configured rate obeys; integer rates >= 1 are generated"},
	})
}

// ---------------------------------------------------------------- C11

// faultyReader delivers data in seeded chunks and can end early or fail mid-stream.
type faultyReader struct {
	data     []byte
	chunks   *Rng
	maxChunk int
	endAt    int // deliver only data[:endAt] then EOF (-1 = all)
	errAt    int // fail with an error once this many bytes were delivered (-1 = never)
	pos      int
}

var errStream = errors.New("injected stream error")

func (f *faultyReader) Read(p []byte) (int, error) {
	limit := len(f.data)
	if f.endAt >= 0 && f.endAt < limit {
		limit = f.endAt
	}
	if f.errAt >= 0 && f.pos >= f.errAt {
		return 0, errStream
	}
	if f.pos >= limit {
		return 0, io.EOF
	}
	n := 1 + f.chunks.IntN(f.maxChunk)
	if n > len(p) {
		n = len(p)
	}
	if f.pos+n > limit {
		n = limit - f.pos
	}
	if f.errAt >= 0 && f.pos+n > f.errAt {
		n = f.errAt - f.pos
		if n == 0 {
			return 0, errStream
		}
	}
	copy(p, f.data[f.pos:f.pos+n])
	f.pos += n
	return n, nil
}
func (f *faultyReader) Close() error { return nil }

type c11Msg struct {
	Old   uint64
	Proof [][]byte
	CP    []byte
}

func c11Gen(r *Rng, origin string) c11Msg {
	m := c11Msg{}
	switch r.IntN(5) {
	case 0:
		m.Old = 0
	case 1:
		m.Old = uint64(r.IntN(100))
	case 2:
		m.Old = r.Uint64()
	case 3:
		m.Old = Pick(r, maxU64, uint64(1)<<63, uint64(1)<<63-1, uint64(1)<<32, 9999999999, 10000000000)
	default:
		m.Old = uint64(1) << uint(r.IntN(64))
	}
	n := 0
	switch r.IntN(4) {
	case 0:
	case 1:
		n = r.Range(1, 3)
	case 2:
		n = r.Range(1, 64)
	default:
		n = 64
	}
	for i := 0; i < n; i++ {
		l := 32
		if r.Chance(0.4) {
			l = r.Range(1, 64)
		}
		m.Proof = append(m.Proof, r.Bytes(l))
	}
	// checkpoint: first line must be a listed origin for the request to reach the witness; the rest is arbitrary
	var rest []byte
	switch r.IntN(5) {
	case 0:
		rest = []byte("5\nAAAA\n\n— sig line\n")
	case 1:
		rest = r.Bytes(r.Range(0, 300)) // non-UTF-8, may contain blank lines
	case 2:
		rest = []byte("\n\n\n\n")
	case 3:
		rest = []byte("old 7\nAAAA\n\nold 9\n\n")
	default:
		rest = []byte(strings.Repeat("line\n", r.Range(0, 50)))
	}
	m.CP = append([]byte(origin+"\n"), rest...)
	return m
}

func init() {
	register(&Scenario{
		Prop:  "C11",
		Level: "exploration",
		Rule:  "generated (old size over 0..2^64-1, 0..64 proof hashes of 1..64 bytes, arbitrary checkpoint bytes incl. blank lines and non-UTF-8) written in the wire format and delivered to the real handler, in front of a recording witness, through a faulty reader: seeded chunkings down to 1 byte, end-of-stream at EVERY byte offset up to the blank separator, a read error at EVERY such offset; plus clearly malformed size lines, non-base64 proof lines, and arbitrary byte strings; intact delivery => the witness received exactly that old size, those hashes in order, those bytes; cut or failed before the separator / malformed => 400 and the witness is not called; Proof.Marshal/Unmarshal round trip on the same generated lists (carried along: it has no fault or schedule dimension). evaluations = deliveries; non-trivial = a delivery with a stream fault or chunk size < 8; distinct = distinct (proof length class, fault kind, offset class, outcome)",
		Gen: func(r *Rng, tier string, n uint64) *Plan {
			p := &Plan{Scenario: "parse"}
			p.Cfg = Config{Store: "mem", Dense: 16, WitKeys: []string{"cosig:0"}, Logs: []LogCfg{{Origin: "sim.example/parse", Key: 0}}, Extra: map[string]int64{}, Notes: map[string]string{}}
			return p
		},
		Run: func(t *testing.T, p *Plan) *Outcome {
			out := &Outcome{Stats: newStats()}
			w := NewWorld(p)
			ld := w.Logs[0]
			cl, err := config.NewLog(ld.Origin, ld.Key.VerifierString(), "http://unused/")
			if err != nil {
				out.Infra = []string{err.Error()}
				return out
			}
			witV, _ := f_note.NewVerifierForCosignatureV1(w.WitKeys[0].Key.VerifierString())
			cw := &countingWitness{}
			h := http.MaxBytesHandler(bastion.VerifNewHandler(bastion.Config{Logs: []config.Log{cl}, WitnessVerifier: witV,
				Limits: bastion.RequestLimits{TotalPerSecond: rate.Limit(1e9)}}, cw), 16*1024)
			r := NewRng(p.Seed ^ 0xc11)
			only := p.Cfg.Notes["only"] // replay of one delivery: "<msg#>/<kind>/<offset>"
			var back witness.Proof      // one receiver for all round trips: reading a proof must not depend on what the variable held before
			var heldCP []byte           // what the parser returned for the previous body ...
			var heldProof [][]byte
			var heldWant c11Msg // ... and what it has to stay
			deliver := func(body []byte, endAt, errAt, maxChunk int, chunkSeed uint64) (int, int) {
				before := len(cw.calls)
				rec := httptest.NewRecorder()
				hr := httptest.NewRequest(http.MethodPost, "/", &faultyReader{data: body, chunks: NewRng(chunkSeed), maxChunk: maxChunk, endAt: endAt, errAt: errAt})
				hr.ContentLength = -1
				h.ServeHTTP(rec, hr)
				out.Evals++
				return rec.Code, len(cw.calls) - before
			}
			fail := func(cls, sig, key, d string) *Outcome {
				out.Viol = append(out.Viol, Violation{Class: cls, Sig: cls + "/" + sig, Detail: d})
				q := p.Clone()
				q.Cfg.Notes["only"] = key
				out.FailPlan = q
				out.Events = []string{key}
				return out
			}
			for mi := 0; mi < 6; mi++ {
				m := c11Gen(r, ld.Origin)
				body := wireBody(m.Old, m.Proof, m.CP)
				sep := bytes.Index(body, []byte("\n\n")) + 2 // bytes up to and including the blank line
				chunkSeed := r.Uint64()
				want := func(kind string, off int) bool { return only == "" || only == fmt.Sprintf("%d/%s/%d", mi, kind, off) }
				// round trip of the common proof format, on the same data
				{ // always executed, also in a replay of one delivery: the receiver is shared, so earlier round trips matter
					if err := back.Unmarshal([]byte(witness.Proof(m.Proof).Marshal())); err != nil || len(back) != len(m.Proof) {
						return fail("roundtrip_mismatch", "proof_format", fmt.Sprintf("%d/roundtrip/0", mi), fmt.Sprintf("Proof.Marshal/Unmarshal of %d hashes: err=%v got %d", len(m.Proof), err, len(back)))
					}
					for i := range back {
						if !bytes.Equal(back[i], m.Proof[i]) {
							return fail("roundtrip_mismatch", "proof_format", fmt.Sprintf("%d/roundtrip/0", mi), fmt.Sprintf("Proof round trip changed hash %d", i))
						}
					}
					out.Evals++
				}
				// the parser called directly (always executed: what an earlier call returned must stay what it was while later
				// bodies are parsed - the handler still holds it while the witness works on it)
				if len(body) <= 16*1024 {
					po, pp, pc, perr := bastion.VerifParseBody(&faultyReader{data: body, chunks: NewRng(chunkSeed), maxChunk: 4096, endAt: -1, errAt: -1})
					out.Evals++
					switch {
					case perr != nil:
						return fail("roundtrip_mismatch", "parser_refused", fmt.Sprintf("%d/direct/0", mi), fmt.Sprintf("an intact well-formed body (old=%d, %d hashes, %d checkpoint bytes) was refused by the parser: %v", m.Old, len(m.Proof), len(m.CP), perr))
					case po != m.Old || len(pp) != len(m.Proof) || !bytes.Equal(pc, m.CP):
						return fail("roundtrip_mismatch", "parser", fmt.Sprintf("%d/direct/0", mi), fmt.Sprintf("wrote old=%d, %d hashes, %d checkpoint bytes; the parser returned old=%d, %d hashes, %d checkpoint bytes", m.Old, len(m.Proof), len(m.CP), po, len(pp), len(pc)))
					}
					for i := range pp {
						if !bytes.Equal(pp[i], m.Proof[i]) {
							return fail("roundtrip_mismatch", "parser", fmt.Sprintf("%d/direct/0", mi), fmt.Sprintf("the parser returned a different proof hash %d", i))
						}
					}
					if heldCP != nil && (!bytes.Equal(heldCP, heldWant.CP) || len(heldProof) != len(heldWant.Proof)) {
						return fail("roundtrip_mismatch", "result_changed_by_later_parse", fmt.Sprintf("%d/direct/0", mi), fmt.Sprintf("the checkpoint returned for body %d (%d bytes) changed when body %d was parsed: it now reads %s", mi-1, len(heldWant.CP), mi, short(heldCP)))
					}
					for i := range heldProof {
						if !bytes.Equal(heldProof[i], heldWant.Proof[i]) {
							return fail("roundtrip_mismatch", "result_changed_by_later_parse", fmt.Sprintf("%d/direct/0", mi), fmt.Sprintf("proof hash %d returned for body %d changed when body %d was parsed", i, mi-1, mi))
						}
					}
					heldCP, heldProof, heldWant = pc, pp, m
					if heldCP == nil {
						heldCP = []byte{}
					}
				}
				// intact, under three chunkings
				for ci, mc := range []int{1, 7, 4096} {
					if !want("intact", ci) {
						continue
					}
					code, calls := deliver(body, -1, -1, mc, chunkSeed+uint64(ci))
					if len(body) > 16*1024 {
						continue
					}
					if calls != 1 {
						return fail("roundtrip_mismatch", "not_delivered", fmt.Sprintf("%d/intact/%d", mi, ci), fmt.Sprintf("an intact well-formed body (old=%d, %d hashes, %d checkpoint bytes; chunks <= %d) was answered %d and reached the witness %d times", m.Old, len(m.Proof), len(m.CP), mc, code, calls))
					}
					c := cw.calls[len(cw.calls)-1]
					field := ""
					switch {
					case c.Old != m.Old:
						field = fmt.Sprintf("old size: wrote %d, witness received %d", m.Old, c.Old)
					case len(c.Proof) != len(m.Proof):
						field = fmt.Sprintf("proof: wrote %d hashes, witness received %d", len(m.Proof), len(c.Proof))
					case !bytes.Equal(c.CP, m.CP):
						field = fmt.Sprintf("checkpoint: wrote %d bytes, witness received %d", len(m.CP), len(c.CP))
					default:
						for i := range c.Proof {
							if !bytes.Equal(c.Proof[i], m.Proof[i]) {
								field = fmt.Sprintf("proof hash %d differs", i)
							}
						}
					}
					if field != "" {
						return fail("roundtrip_mismatch", strings.SplitN(field, ":", 2)[0], fmt.Sprintf("%d/intact/%d", mi, ci), "chunks <= "+fmt.Sprint(mc)+": "+field)
					}
					if mc < 8 {
						out.Distinct = append(out.Distinct, fmt.Sprintf("intact/%d/%d", len(m.Proof)/8, mc))
					}
				}
				// the stream ends, or fails, at every offset before the separator is complete
				for off := 0; off < sep; off++ {
					for _, kind := range []string{"eof", "err"} {
						if !want(kind, off) {
							continue
						}
						endAt, errAt := off, -1
						if kind == "err" {
							endAt, errAt = -1, off
						}
						code, calls := deliver(body, endAt, errAt, 16, chunkSeed+uint64(off))
						out.Stats.Fired["stream_"+kind]++
						// the parser itself must refuse it (not hand back an old size, some of the hashes and an empty checkpoint for a
						// later stage to stumble over)
						if po, pp, pc, perr := bastion.VerifParseBody(&faultyReader{data: body, chunks: NewRng(chunkSeed + uint64(off)), maxChunk: 16, endAt: endAt, errAt: errAt}); perr == nil {
							return fail("partial_body_understood", "parser/"+kind, fmt.Sprintf("%d/%s/%d", mi, kind, off), fmt.Sprintf("a body cut (%s) at byte %d of %d, before the blank separator at %d, was parsed without error as old=%d, %d proof hashes, %d checkpoint bytes", kind, off, len(body), sep, po, len(pp), len(pc)))
						}
						if calls != 0 || code != 400 {
							return fail("partial_body_understood", kind, fmt.Sprintf("%d/%s/%d", mi, kind, off), fmt.Sprintf("a body cut (%s) at byte %d of %d, before the blank separator at %d, was answered %d and reached the witness %d times", kind, off, len(body), sep, code, calls))
						}
						out.Distinct = append(out.Distinct, fmt.Sprintf("%s/%d/%d", kind, len(m.Proof)/8, off*8/sep))
					}
				}
				// a read error after the separator: anything documented goes, nothing is asserted beyond that (no length in the format)
				if len(body) > sep && want("errlate", 0) {
					code, _ := deliver(body, -1, sep+r.IntN(len(body)-sep), 16, chunkSeed)
					if !documentedStatuses[code] {
						return fail("malformed_accepted", "undocumented_status", fmt.Sprintf("%d/errlate/0", mi), fmt.Sprintf("a read error inside the checkpoint was answered %d", code))
					}
				}
				// clearly malformed variants of this message
				sizeLineEnd := bytes.IndexByte(body, '\n')
				restAfterSize := body[sizeLineEnd:]
				malformed := map[string][]byte{
					"no_old_keyword":    append([]byte(fmt.Sprintf("%d", m.Old)), restAfterSize...),
					"other_keyword":     append([]byte(fmt.Sprintf("new %d", m.Old)), restAfterSize...),
					"no_digits":         append([]byte("old "), restAfterSize...),
					"letters_only":      append([]byte("old abc"), restAfterSize...),
					"junk_after_digits": append([]byte(fmt.Sprintf("old %dxyz", m.Old%1000)), restAfterSize...),
					"negative":          append([]byte("old -1"), restAfterSize...),
					"overflow":          append([]byte("old 18446744073709551616"), restAfterSize...),
					"empty_size_line":   append([]byte(""), restAfterSize...),
					"bad_base64":        append(append(append([]byte{}, body[:sizeLineEnd+1]...), []byte("@@@@\n")...), body[sizeLineEnd+1:]...),
					"bad_base64_pad":    append(append(append([]byte{}, body[:sizeLineEnd+1]...), []byte("QUJD=\n")...), body[sizeLineEnd+1:]...),
					// a proof line is ONE base64 string: blanks are not part of the alphabet, wherever they sit
					"b64_two_on_a_line":  append(append(append([]byte{}, body[:sizeLineEnd+1]...), []byte("QUJD QUJD\n")...), body[sizeLineEnd+1:]...),
					"b64_tab_separated":  append(append(append([]byte{}, body[:sizeLineEnd+1]...), []byte("QUJD\tQUJD\n")...), body[sizeLineEnd+1:]...),
					"b64_trailing_blank": append(append(append([]byte{}, body[:sizeLineEnd+1]...), []byte("QUJD \n")...), body[sizeLineEnd+1:]...),
					"b64_leading_blank":  append(append(append([]byte{}, body[:sizeLineEnd+1]...), []byte(" QUJD\n")...), body[sizeLineEnd+1:]...),
					"blank_only_line":    append(append(append([]byte{}, body[:sizeLineEnd+1]...), []byte(" \n")...), body[sizeLineEnd+1:]...),
				}
				for _, name := range []string{"no_old_keyword", "other_keyword", "no_digits", "letters_only", "junk_after_digits", "negative", "overflow", "empty_size_line", "bad_base64", "bad_base64_pad", "b64_two_on_a_line", "b64_tab_separated", "b64_trailing_blank", "b64_leading_blank", "blank_only_line"} {
					if !want(name, 0) {
						continue
					}
					code, calls := deliver(malformed[name], -1, -1, 64, chunkSeed)
					if calls != 0 || code != 400 {
						return fail("malformed_accepted", name, fmt.Sprintf("%d/%s/0", mi, name), fmt.Sprintf("a body with a %s (%q...) was answered %d and reached the witness %d times", name, firstLine(malformed[name]), code, calls))
					}
					out.Distinct = append(out.Distinct, "malformed/"+name)
				}
				// arbitrary bytes: only liveness and a documented status
				if want("random", 0) {
					code, _ := deliver(r.Bytes(r.Range(0, 400)), -1, -1, 64, chunkSeed)
					if !documentedStatuses[code] {
						return fail("malformed_accepted", "undocumented_status", fmt.Sprintf("%d/random/0", mi), fmt.Sprintf("random bytes were answered %d", code))
					}
				}
				if mi == 0 {
					out.Sample = map[string]any{"old": m.Old, "proof_hashes": len(m.Proof), "checkpoint_bytes": len(m.CP), "body_bytes": len(body), "separator_at": sep}
				}
			}
			return out
		},
		Components: map[string]string{
			"internal/feeder/bastion addHandler.ServeHTTP + parseBody": "real (via the -overlay constructor), behind http.MaxBytesHandler(16 KiB)",
			"internal/witness Proof.Marshal/Unmarshal":                 "real",
			"witness":        "recording stub (the property is about what reaches it)",
			"request stream": "harness reader: seeded chunking, end-of-stream and read error at every offset",
			"cmd/feedbastion's writer of the body format": "not run (package main); the harness writes the format from the c2sp spec",
		},
		Assumptions: []string{"grey-zone spellings of the size line (CR before LF, leading zeros, extra blanks, a leading '+') are left unconstrained", "the format carries no length, so a clean end-of-stream after the separator is indistinguishable from a shorter checkpoint and is not flagged"},
	})
}

func firstLine(b []byte) string {
	if i := bytes.IndexByte(b, '\n'); i >= 0 {
		b = b[:i]
	}
	if len(b) > 40 {
		b = b[:40]
	}
	return string(b)
}

var _ = psql.NewPersistence

// c20ViaBastion drives a C10 request script through the real endpoint and compares the witness counters with the
// outcomes: every request that names a listed, known log and is neither malformed nor pushed back is ONE attempt.
func c20ViaBastion(t *testing.T, p *Plan) *Outcome {
	out := &Outcome{Stats: newStats()}
	before := recorder.Snapshot()
	r := c10Exec(t, p)
	delta := recorder.Delta(before)
	if r.infra != "" {
		out.Infra = []string{r.infra}
		return out
	}
	want := map[string]float64{}
	mix := map[string]int{}
	for _, q := range r.reqs {
		first, _, _ := strings.Cut(string(q.Req.CP), "\n")
		target := r.W.LogByID(LogID(first))
		mix[fmt.Sprint(q.Status)]++
		if q.Status == 429 || q.Calls == 0 || target == nil || q.Kind != "update" {
			continue
		}
		id := target.ID
		want[counterNames["attempt"]+"|"+id]++
		switch q.Status {
		case 200:
			want[counterNames["success"]+"|"+id]++
		case 422:
			want[counterNames["bad_proof"]+"|"+id]++
		case 409:
			if q.Want == "root_mismatch" {
				want[counterNames["inconsistent"]+"|"+id]++
			}
		}
		out.Events = append(out.Events, fmt.Sprintf("%s %d", q.Want, q.Status))
	}
	keys := map[string]bool{}
	for k := range want {
		keys[k] = true
	}
	for k := range delta {
		if strings.HasPrefix(k, "witness_update_") {
			keys[k] = true
		}
	}
	for k := range keys {
		name, id, _ := strings.Cut(k, "|")
		if name == counterNames["inconsistent"] || name == counterNames["bad_proof"] || name == counterNames["success"] {
			// through the endpoint only the attempt counter is pinned down by the status alone (409 and 500 are shared by
			// several verdicts); the others are compared only where the status decides them
			if name == counterNames["success"] && want[k] != delta[k] {
				out.Viol = append(out.Viol, Violation{Class: "counter_mismatch", Sig: "counter_mismatch/" + name + "/via_bastion", Detail: fmt.Sprintf("through the bastion endpoint: counter %s for log %s: got %v want %v; statuses %v", name, id[:8], delta[k], want[k], mix)})
			}
			continue
		}
		if want[k] != delta[k] {
			out.Viol = append(out.Viol, Violation{Class: "counter_mismatch", Sig: "counter_mismatch/" + name + "/via_bastion", Detail: fmt.Sprintf("through the bastion endpoint: counter %s for log %s: got %v want %v (one request that reaches the witness is one attempt); statuses %v", name, id[:8], delta[k], want[k], mix)})
		}
	}
	out.Distinct = []string{fmt.Sprintf("bastion/%v", mix)}
	out.Stats.Probes["histories_via_bastion_endpoint"]++
	return out
}

// c03ViaBastion: C03 for requests that arrive through the add-checkpoint endpoint (handler, adapter, witness): whatever is
// answered other than 200, every log's latest checkpoint and the log list are byte for byte what they were, and the answer
// carries no witness signature over the submitted text.
func c03ViaBastion(t *testing.T, p *Plan) *Outcome {
	out := &Outcome{Stats: newStats()}
	r := c10Exec(t, p)
	if r.infra != "" {
		out.Infra = []string{r.infra}
		return out
	}
	prev := map[string]string{}
	var prevLogs []string
	for i, q := range r.reqs {
		out.Events = append(out.Events, fmt.Sprintf("%d %s %d", i, q.Want, q.Status))
		if q.Status != 200 {
			out.Stats.Probes["refused_through_endpoint"]++
			out.Distinct = append(out.Distinct, fmt.Sprintf("endpoint/%s/%d", q.Want, q.Status))
			for _, l := range r.W.Logs {
				if q.Snap[l.ID] != prev[l.ID] {
					out.Viol = append(out.Viol, Violation{Class: "state_changed_on_refusal", Sig: "state_changed_on_refusal/via_endpoint", OpIdx: i,
						Detail: fmt.Sprintf("request %d through the endpoint (%s; %s) was answered %d, yet log %d went from %s to %s", i, q.Kind, q.Req.Desc, q.Status, l.Idx, short([]byte(prev[l.ID])), short([]byte(q.Snap[l.ID])))})
				}
			}
			if strings.Join(q.Logs, ",") != strings.Join(prevLogs, ",") {
				out.Viol = append(out.Viol, Violation{Class: "state_changed_on_refusal", Sig: "state_changed_on_refusal/log_list/via_endpoint", OpIdx: i,
					Detail: fmt.Sprintf("request %d through the endpoint was answered %d, yet the log list went from %v to %v", i, q.Status, prevLogs, q.Logs)})
			}
			// no witness signature over the refused text in the answer
			for _, l := range strings.SplitAfter(string(q.RBody), "\n") {
				if !strings.HasPrefix(l, "\u2014 ") || q.Req == nil {
					continue
				}
				if pn, err := ParseNote(MakeNote(q.Req.Text, l)); err == nil && len(pn.Sigs) == 1 {
					for _, wk := range r.W.WitKeys {
						ok := false
						if wk.Cosig {
							ok, _ = wk.Key.VerifyCosigV1(q.Req.Text, pn.Sigs[0])
						} else {
							ok = wk.Key.VerifyEd25519(q.Req.Text, pn.Sigs[0])
						}
						if ok {
							out.Viol = append(out.Viol, Violation{Class: "cosignature_leaked", Sig: "cosignature_leaked/via_endpoint", OpIdx: i,
								Detail: fmt.Sprintf("request %d was answered %d and the body carries a valid witness signature over the refused checkpoint", i, q.Status)})
						}
					}
				}
			}
		}
		prev, prevLogs = q.Snap, q.Logs
	}
	out.Stats.Probes["histories_via_bastion_endpoint"]++
	return out
}

// c09ViaBastion: C09 as the caller that switches on the verdict sees it. The sequential model gives the verdict of every
// request; the endpoint maps a verdict to a status (and, for a stale old size, to the witness's size as body). A verdict
// that reaches the handler in a form its switch does not recognise shows as the wrong status.
func c09ViaBastion(t *testing.T, p *Plan) *Outcome {
	out := &Outcome{Stats: newStats()}
	r := c10Exec(t, p)
	if r.infra != "" {
		out.Infra = []string{r.infra}
		return out
	}
	judged := map[string]bool{"accept": true, "old_too_large": true, "stale": true, "root_mismatch": true, "bad_proof": true, "no_sig": true, "unknown_origin": true}
	for _, v := range oracleC10(p, r) {
		if v.Class != "status_mismatch" || v.OpIdx < 0 || v.OpIdx >= len(r.reqs) || !judged[r.reqs[v.OpIdx].Want] {
			continue
		}
		v.Class, v.Sig = "verdict_mismatch", "verdict_mismatch/via_endpoint/"+strings.TrimPrefix(v.Sig, "status_mismatch/")
		out.Viol = append(out.Viol, v)
	}
	for i, q := range r.reqs {
		out.Events = append(out.Events, fmt.Sprintf("%d %s %d", i, q.Want, q.Status))
		if judged[q.Want] {
			st := "none"
			if q.St.Has {
				st = "stored"
			}
			out.Distinct = append(out.Distinct, fmt.Sprintf("endpoint/%s/%d/%s", q.Want, q.Status, st))
			out.Stats.Probes["verdicts_judged_through_endpoint"]++
		}
	}
	out.Stats.SimNanos = int64(r.simT)
	return out
}

// c08ViaBastion: C08 for honest updates that arrive through the endpoint: after any prior traffic (accepted, refused,
// pushed back), an honest update sent after two token periods of silence - when no limiter of the configured rate can be
// short of a token, since pushed-back requests use up nothing - is answered 200.
func c08ViaBastion(t *testing.T, p *Plan) *Outcome {
	return endpointProbes(t, p, "honest_update_refused", "honest_update_refused/via_endpoint")
}

func endpointProbes(t *testing.T, p *Plan, cls, sig string) *Outcome {
	out := &Outcome{Stats: newStats()}
	r := c10Exec(t, p)
	if r.infra != "" {
		out.Infra = []string{r.infra}
		return out
	}
	from := int(p.Cfg.Extra["probe_from"])
	for _, q := range r.reqs {
		if q.Fault != "" {
			out.Stats.Fired["storage_fault_while_serving/"+q.Fault]++
		}
	}
	n := 0
	for i, op := range p.Ops {
		if op.K == "jump" {
			continue
		}
		if i >= from && n < len(r.reqs) {
			q := r.reqs[n]
			out.Events = append(out.Events, fmt.Sprintf("probe %d %s %d", n, q.Want, q.Status))
			if q.Want == "accept" && q.Req != nil && !q.Req.NoHonest && !(q.St.Has && q.St.Size == 0) {
				out.Stats.Probes["honest_probes_through_endpoint"]++
				out.Distinct = append(out.Distinct, fmt.Sprintf("endpoint_probe/%d", q.Status))
				if q.Status != 200 {
					out.Viol = append(out.Viol, Violation{Class: cls, Sig: fmt.Sprintf("%s/status=%d", sig, q.Status), OpIdx: i,
						Detail: fmt.Sprintf("an honest update (%s; stored {%s}) sent through the endpoint after at least two token periods of silence at a configured rate of %v/s was answered %d", q.Req.Desc, cpBrief(q.St), r.rate, q.Status)})
				}
			}
		}
		n++
	}
	return out
}
