package verifsim

import (
	"crypto/sha256"
	"encoding/hex"
	"fmt"
	"gopkg.in/yaml.v3"
	"strconv"
	"strings"
	"sync"

	f_note "github.com/transparency-dev/formats/note"
	"github.com/transparency-dev/witness/internal/witness"
	"github.com/transparency-dev/witness/omniwitness"
	"golang.org/x/mod/sumdb/note"
)

// LogID is hex(sha256("o:"+origin)), computed here independently of formats/log.ID.
func LogID(origin string) string {
	h := sha256.Sum256([]byte("o:" + origin))
	return hex.EncodeToString(h[:])
}

// SignedCP is a checkpoint text the harness signed with a log key.
type SignedCP struct {
	Key    int
	Origin string
	Branch int // -1 for garbage roots
	Size   uint64
	Root   []byte
	Text   string
}

type LogDef struct {
	Idx      int
	Origin   string
	ID       string
	KeyIdx   int
	Key      *Key
	Branches []*RefTree
}

type WitKey struct {
	Key   *Key
	Cosig bool
}

type World struct {
	mu      sync.Mutex // Sign may be called from several stub-server goroutines
	Seed    uint64
	Logs    []*LogDef
	Keys    []*Key // log keys by index
	WitKeys []WitKey
	Dense   uint64
	// Signed[keyIdx][text]: every text ever signed by that log key in this run.
	Signed map[int]map[string]*SignedCP
	// rootIdx[logIdx]["size:hexroot"] -> branch indices with that root at that size (lazily filled)
	Stranger *Key // a key configured nowhere
}

func worldKey(seed uint64, class string, i int) [32]byte {
	r := NewRng(splitmix(seed ^ strHash(class) ^ uint64(i)*0x9e3779b97f4a7c15))
	return r.Seed32()
}

var collideOnce sync.Once
var collideA, collideB *Key

// collidingKeys returns two fixed, different Ed25519 keys under different names whose note key IDs
// (first four bytes of SHA-256(name "\n" alg key)) collide; found once per process by a birthday search over names.
func collidingKeys() (*Key, *Key) {
	collideOnce.Do(func() {
		sa, sb := worldKey(0xc011de, "collide", 0), worldKey(0xc011de, "collide", 1)
		seen := map[uint32]int{}
		for i := 0; collideA == nil; i++ {
			ka := NewKey(fmt.Sprintf("logkey0-%d", i), sa)
			seen[ka.KeyHash(algEd25519)] = i
			kb := NewKey(fmt.Sprintf("logkey1-%d", i), sb)
			if j, ok := seen[kb.KeyHash(algEd25519)]; ok {
				collideA, collideB = NewKey(fmt.Sprintf("logkey0-%d", j), sa), kb
			}
		}
	})
	return collideA, collideB
}

func NewWorld(p *Plan) *World {
	w := &World{Seed: p.Seed, Dense: p.Cfg.Dense, Signed: map[int]map[string]*SignedCP{}}
	nk := 0
	for _, l := range p.Cfg.Logs {
		if l.Key+1 > nk {
			nk = l.Key + 1
		}
	}
	for i := 0; i < nk; i++ {
		name := fmt.Sprintf("logkey%d", i)
		if p.Cfg.Extra["samename"] != 0 {
			name = "logkey" // different keys under one key name (a sharded log whose signing key was rotated): the key ID still tells them apart
		}
		w.Keys = append(w.Keys, NewKey(name, worldKey(p.Seed, "log", i)))
	}
	if p.Cfg.Extra["collide"] != 0 && nk >= 2 {
		// two different keys whose 32-bit note key IDs are equal (the ID is a lookup hint, not an identity): a legal configuration
		a, b := collidingKeys()
		w.Keys[0], w.Keys[1] = a, b
	}
	w.Stranger = NewKey("stranger", worldKey(p.Seed, "stranger", 0))
	for i, lc := range p.Cfg.Logs {
		ld := &LogDef{Idx: i, Origin: lc.Origin, ID: LogID(lc.Origin), KeyIdx: lc.Key, Key: w.Keys[lc.Key]}
		trunk := NewRefTree(p.Cfg.Dense, map[uint64]string{})
		ld.Branches = []*RefTree{trunk}
		for bi, f := range lc.Forks {
			par := ld.Branches[0]
			if f.Parent >= 0 && f.Parent < len(ld.Branches) {
				par = ld.Branches[f.Parent]
			}
			ld.Branches = append(ld.Branches, par.Fork(f.At, fmt.Sprintf("L%d.b%d", i, bi+1)))
		}
		w.Logs = append(w.Logs, ld)
	}
	for _, wk := range p.Cfg.WitKeys {
		kind, num, _ := strings.Cut(wk, ":")
		n, _ := strconv.Atoi(num)
		w.WitKeys = append(w.WitKeys, WitKey{Key: NewKey(fmt.Sprintf("wit%d", n), worldKey(p.Seed, "wit", n)), Cosig: kind == "cosig"})
	}
	return w
}

// Sign records text as signed by key k and returns the signature line.
func (w *World) Sign(keyIdx int, cp *SignedCP) string {
	w.mu.Lock()
	defer w.mu.Unlock()
	cp.Key = keyIdx
	m := w.Signed[keyIdx]
	if m == nil {
		m = map[string]*SignedCP{}
		w.Signed[keyIdx] = m
	}
	if _, ok := m[cp.Text]; !ok {
		m[cp.Text] = cp
	}
	return w.Keys[keyIdx].SignEd25519(cp.Text)
}

// BranchesWithRoot lists the branches of log l whose root at size equals root.
func (w *World) BranchesWithRoot(l int, size uint64, root []byte) []int {
	var out []int
	if len(root) != 32 || size > 1<<63 {
		return nil
	}
	for i, b := range w.Logs[l].Branches {
		h := b.Root(size)
		if string(h[:]) == string(root) {
			out = append(out, i)
		}
	}
	return out
}

// Compatible is the ground truth of C01: may (size2, root2) follow (size1, root1)
// in one append-only history of log l?
func (w *World) Compatible(l int, size1 uint64, root1 []byte, size2 uint64, root2 []byte) (bool, string) {
	if size2 < size1 {
		return false, "size_decreased"
	}
	if size1 == size2 {
		if string(root1) != string(root2) {
			return false, "equal_size_root_differs"
		}
		return true, ""
	}
	if size1 == 0 {
		return true, "" // the empty tree is a prefix of every tree
	}
	b1 := w.BranchesWithRoot(l, size1, root1)
	b2 := w.BranchesWithRoot(l, size2, root2)
	for _, x := range b1 {
		for _, y := range b2 {
			if PrefixCompatible(w.Logs[l].Branches[x], w.Logs[l].Branches[y], size1) {
				return true, ""
			}
		}
	}
	return false, "not_prefix_compatible"
}

// KnownLogs builds the real witness's log map the way omniwitness.Main does: through
// omniwitness.LogConfig.AsLogMap (the per-log verifier and origin come from configuration keyed by log ID).
func (w *World) KnownLogs() (map[string]witness.LogInfo, error) {
	// The configuration is written as YAML and read back, the way the shipped logs.yaml reaches AsLogMap. Like the shipped file,
	// entries may carry a PublicKeyType line; the scheme is taken from the key itself, so whatever the line says (or its absence)
	// must make no difference - the knob varies with the key index.
	var y strings.Builder
	y.WriteString("Logs:\n")
	for _, l := range w.Logs {
		fmt.Fprintf(&y, "  - Origin: %s\n    URL: http://unused.example/\n", yamlQuote(l.Origin))
		switch l.KeyIdx % 3 {
		case 1:
			y.WriteString("    PublicKeyType: ecdsa\n")
		case 2:
			y.WriteString("    PublicKeyType: ed25519\n")
		}
		fmt.Fprintf(&y, "    PublicKey: %s\n    Feeder: none\n", yamlQuote(l.Key.VerifierString()))
	}
	cfg := omniwitness.LogConfig{}
	if err := yaml.Unmarshal([]byte(y.String()), &cfg); err != nil {
		return nil, fmt.Errorf("harness configuration does not parse: %v", err)
	}
	for i, l := range w.Logs {
		if i >= len(cfg.Logs) || cfg.Logs[i].Origin != l.Origin || cfg.Logs[i].PublicKey != l.Key.VerifierString() {
			return nil, fmt.Errorf("harness configuration did not survive YAML: entry %d", i)
		}
	}
	m, err := cfg.AsLogMap()
	if err != nil {
		return nil, err
	}
	for _, l := range w.Logs {
		if _, ok := m[l.ID]; !ok {
			return nil, fmt.Errorf("AsLogMap did not file origin %q under hex(sha256(\"o:\"+origin)) = %s", l.Origin, l.ID)
		}
	}
	return m, nil
}

func (w *World) Signers() ([]note.Signer, error) {
	var out []note.Signer
	for _, wk := range w.WitKeys {
		if wk.Cosig {
			s, err := f_note.NewSignerForCosignatureV1(wk.Key.SignerString())
			if err != nil {
				return nil, err
			}
			out = append(out, s)
		} else {
			s, err := note.NewSigner(wk.Key.SignerString())
			if err != nil {
				return nil, err
			}
			out = append(out, s)
		}
	}
	return out, nil
}

// yamlQuote writes s as a double-quoted YAML scalar.
func yamlQuote(s string) string {
	var b strings.Builder
	b.WriteByte('"')
	for _, c := range s {
		switch {
		case c == '"' || c == '\\':
			b.WriteByte('\\')
			b.WriteRune(c)
		case c < 0x20 || c == 0x7f || c == 0x85 || c == 0xa0 || c == 0x2028 || c == 0x2029 || c == 0xfeff || c > 0xffff:
			fmt.Fprintf(&b, "\\U%08X", c)
		default:
			b.WriteRune(c)
		}
	}
	b.WriteByte('"')
	return b.String()
}

// LogByID finds a configured log.
func (w *World) LogByID(id string) *LogDef {
	for _, l := range w.Logs {
		if l.ID == id {
			return l
		}
	}
	return nil
}
