//go:debug randautoseed=0
//go:debug randseednop=0

package verifsim

import (
	"crypto/sha256"
	"encoding/hex"
	"encoding/json"
	"flag"
	"fmt"
	"io"
	mrand "math/rand"
	"os"
	"path/filepath"
	"regexp"
	"sort"
	"strconv"
	"strings"
	"testing"
	"time"

	"github.com/transparency-dev/witness/monitoring"
	mprom "github.com/transparency-dev/witness/monitoring/prometheus"
	"k8s.io/klog/v2"
)

// Outcome of executing one plan under one property's oracle.
type Outcome struct {
	Viol      []Violation
	Infra     []string
	Stats     Stats
	SchedHash string
	Distinct  []string // keys of the distinct non-trivial cases this run reached
	Sample    any
	Evals     int // number of cases evaluated by this run (default 1)
	Events    []string
	Tagged    map[string][]string // distinct keys counted per tag (e.g. interleavings of one canonical shape)
	Hung      bool                // the execution hit the wall-clock hang limit: goroutines are stuck, the process must not go on
	FailPlan  *Plan               // for enumerating scenarios: the single execution that failed (what gets minimised and replayed)
}

// Scenario is one property's generator + oracle.
type Scenario struct {
	Prop  string
	Level string
	Rule  string
	// Total, if set, says the run numbers 0..Total(tier)-1 enumerate a finite space.
	Total func(tier string) uint64
	Gen   func(r *Rng, tier string, n uint64) *Plan
	Run   func(t *testing.T, p *Plan) *Outcome
	// Extra evidence fields computed by the driver from merged probes.
	Components  map[string]string
	Assumptions []string
}

var scenarios = map[string]*Scenario{}

func register(s *Scenario) { scenarios[s.Prop] = s }

type KnownFinding struct {
	ID       string `json:"id"`
	Property string `json:"property"`
	Status   string `json:"status"` // known | fixed
	Class    string `json:"class"`
	SigRegex string `json:"sig_regex"`
	What     string `json:"what"`
	re       *regexp.Regexp
}

var knownFindings []*KnownFinding

func loadKnown() {
	path := os.Getenv("VERIF_KNOWN")
	if path == "" {
		return
	}
	b, err := os.ReadFile(path)
	if err != nil {
		return
	}
	var doc struct {
		Findings []*KnownFinding `json:"findings"`
	}
	if err := json.Unmarshal(b, &doc); err != nil {
		fmt.Fprintln(os.Stderr, "verifsim: bad known-findings file:", err)
		os.Exit(2)
	}
	for _, k := range doc.Findings {
		if k.Status != "known" {
			continue
		}
		k.re = regexp.MustCompile(k.SigRegex)
		knownFindings = append(knownFindings, k)
	}
}

func matchKnown(v Violation) *KnownFinding {
	for _, k := range knownFindings {
		if k.Property == v.Property && k.Class == v.Class && k.re.MatchString(v.Sig) {
			return k
		}
	}
	return nil
}

func TestMain(m *testing.M) {
	fs := flag.NewFlagSet("klog", flag.ContinueOnError)
	klog.InitFlags(fs)
	_ = fs.Set("logtostderr", "false")
	_ = fs.Set("alsologtostderr", "false")
	_ = fs.Set("stderrthreshold", "FATAL")
	klog.SetOutput(io.Discard)
	if os.Getenv("VERIF_KLOG") != "" { // debugging aid: show what the code under test logs
		_ = fs.Set("logtostderr", "true")
		_ = fs.Set("v", os.Getenv("VERIF_KLOG"))
	}
	monitoring.SetMetricFactory(bothFactory{recorder, mprom.MetricFactory{Prefix: "verifsim_"}})
	loadKnown()
	sweepScratch()
	if mode := os.Getenv("VERIF_CHILD"); mode != "" {
		if f := childModes[mode]; f != nil {
			f()
		}
		os.Exit(2)
	}
	os.Exit(m.Run())
}

// childModes: entry points for child processes of this binary (crash children for C06, watchdogged cases for C19).
var childModes = map[string]func(){}

type WorkerViolation struct {
	Violation
	Replay string `json:"replay"`
	RunNo  uint64 `json:"run_no"`
	Seed   uint64 `json:"seed"`
}

type WorkerResult struct {
	Property      string              `json:"property"`
	Worker        int                 `json:"worker"`
	Runs          int                 `json:"runs"`
	Evals         int                 `json:"evals"`
	Decisions     int                 `json:"decisions"`
	Seams         int                 `json:"seams"`
	SimSeconds    float64             `json:"sim_seconds"`
	WallS         float64             `json:"wall_s"`
	Fired         map[string]int      `json:"fired"`
	Probes        map[string]int      `json:"probes"`
	Distinct      []uint64            `json:"distinct"`
	Scheds        []uint64            `json:"scheds"`
	Samples       []any               `json:"samples"`
	Viol          []WorkerViolation   `json:"violations"`
	Known         map[string]int      `json:"known"`
	KnownWhat     map[string]string   `json:"known_what"`
	Infra         []string            `json:"infra"`
	Inconclusive  int                 `json:"inconclusive"`
	Exhausted     bool                `json:"exhausted"`
	FirstSeed     uint64              `json:"first_seed"`
	LastSeed      uint64              `json:"last_seed"`
	MinimiseExecs int                 `json:"minimise_execs"`
	Tagged        map[string][]uint64 `json:"tagged,omitempty"`
	TraceHash     string              `json:"trace_hash,omitempty"`
}

func envInt(name string, def int64) int64 {
	if v := os.Getenv(name); v != "" {
		n, err := strconv.ParseInt(v, 10, 64)
		if err == nil {
			return n
		}
	}
	return def
}

type ReplayFile struct {
	Property  string    `json:"property"`
	Seed      uint64    `json:"seed"`
	RunNo     uint64    `json:"run_no"`
	Tier      string    `json:"tier"`
	Violation Violation `json:"violation"`
	Plan      *Plan     `json:"plan"`
	Original  *Plan     `json:"original_plan,omitempty"`
	Events    []string  `json:"events"`
}

func firstNew(out *Outcome, prop string) (*Violation, []Violation) {
	var known []Violation
	for i := range out.Viol {
		v := out.Viol[i]
		if v.Property == "" {
			v.Property = prop
		}
		if matchKnown(v) != nil {
			known = append(known, v)
			continue
		}
		return &v, known
	}
	return nil, known
}

// TestWorker is the entry point the ./check driver runs, one OS process per worker.
func TestWorker(t *testing.T) {
	prop := os.Getenv("VERIF_PROP")
	if prop == "" {
		t.Skip("not a worker invocation")
	}
	sc := scenarios[prop]
	if sc == nil {
		fmt.Fprintln(os.Stderr, "verifsim: no scenario for", prop)
		os.Exit(2)
	}
	tier := os.Getenv("VERIF_TIER")
	if tier == "" {
		tier = "quick"
	}
	if rp := os.Getenv("VERIF_REPLAY"); rp != "" {
		replayMain(t, sc, rp)
		return
	}
	base := uint64(envInt("VERIF_SEED", 1))
	worker := int(envInt("VERIF_WORKER", 0))
	workers := int(envInt("VERIF_WORKERS", 1))
	budget := time.Duration(envInt("VERIF_BUDGET_MS", 20000)) * time.Millisecond
	maxRuns := envInt("VERIF_MAXRUNS", 1<<40)
	outPath := os.Getenv("VERIF_OUT")
	replayDir := os.Getenv("VERIF_REPLAY_DIR")
	if replayDir == "" {
		replayDir = os.TempDir()
	}
	res := &WorkerResult{Property: prop, Worker: worker, Fired: map[string]int{}, Probes: map[string]int{}, Known: map[string]int{}, KnownWhat: map[string]string{}}
	hungSeen := false
	distinct := map[uint64]bool{}
	scheds := map[uint64]bool{}
	tagged := map[string]map[uint64]bool{}
	start := time.Now()
	traceHash := sha256.New()
	wantTrace := os.Getenv("VERIF_TRACEHASH") != ""
	var total uint64 = 1 << 62
	if sc.Total != nil {
		total = sc.Total(tier)
	}
	for k := uint64(0); ; k++ {
		n := uint64(worker) + k*uint64(workers)
		if n >= total {
			res.Exhausted = true
			break
		}
		if time.Since(start) > budget || int64(res.Runs) >= maxRuns {
			break
		}
		seed := runSeed(base, prop, n)
		plan := sc.Gen(NewRng(seed), tier, n)
		plan.Property, plan.Seed = prop, seed
		out := sc.Run(t, plan)
		if out.Hung {
			hungSeen = true
		}
		res.Runs++
		if wantTrace {
			if f := os.Getenv("VERIF_TRACEDUMP"); f != "" { // debugging aid for the determinism self-test: what goes into the hash, for diffing
				if fh, err := os.OpenFile(f, os.O_APPEND|os.O_CREATE|os.O_WRONLY, 0o644); err == nil {
					ds := append([]string{}, out.Distinct...)
					sort.Strings(ds)
					fmt.Fprintf(fh, "run %d seed %d sched %s\n%s\n%v\n%s\n", n, seed, out.SchedHash, strings.Join(out.Events, "\n"), out.Viol, strings.Join(ds, ","))
					fh.Close()
				}
			}
			fmt.Fprintf(traceHash, "run %d seed %d sched %s\n", n, seed, out.SchedHash)
			for _, e := range out.Events {
				traceHash.Write([]byte(e + "\n"))
			}
			for _, v := range out.Viol {
				traceHash.Write([]byte(v.Class + v.Sig + "\n"))
			}
			ds := append([]string{}, out.Distinct...)
			sort.Strings(ds)
			traceHash.Write([]byte(strings.Join(ds, ",")))
		}
		if res.Runs == 1 {
			res.FirstSeed = seed
		}
		res.LastSeed = seed
		ev := out.Evals
		if ev == 0 {
			ev = 1
		}
		res.Evals += ev
		res.Decisions += out.Stats.Decisions
		res.Seams += out.Stats.Seams
		res.SimSeconds += float64(out.Stats.SimNanos) / 1e9
		res.Inconclusive += out.Stats.Inconclusive
		for k, v := range out.Stats.Fired {
			res.Fired[k] += v
		}
		for k, v := range out.Stats.Probes {
			res.Probes[k] += v
		}
		if len(distinct) < 400000 {
			for _, d := range out.Distinct {
				distinct[strHash(d)] = true
			}
		}
		for tag, ks := range out.Tagged {
			if tagged[tag] == nil {
				tagged[tag] = map[uint64]bool{}
			}
			for _, k := range ks {
				tagged[tag][strHash(k)] = true
			}
		}
		if out.SchedHash != "" && len(scheds) < 400000 {
			scheds[strHash(out.SchedHash)] = true
		}
		if len(res.Samples) < 2 && out.Sample != nil {
			res.Samples = append(res.Samples, out.Sample)
		}
		if out.Hung && len(out.Viol) == 0 {
			out.Infra = append(out.Infra, "execution hung (wall-clock hang limit)")
		}
		if len(out.Infra) > 0 {
			res.Infra = append(res.Infra, fmt.Sprintf("run %d seed %d: %s", n, seed, strings.Join(out.Infra, "; ")))
			writeJSON(filepath.Join(replayDir, fmt.Sprintf("%s-infra-%d.json", prop, seed)), &ReplayFile{Property: prop, Seed: seed, RunNo: n, Tier: tier, Plan: plan, Events: out.Events})
			break
		}
		v, known := firstNew(out, prop)
		for _, kv := range known {
			kf := matchKnown(kv)
			res.Known[kf.ID]++
			res.KnownWhat[kf.ID] = kf.What
		}
		if v != nil {
			if out.FailPlan != nil {
				plan = out.FailPlan
				plan.Property, plan.Seed = prop, seed
			}
			orig := plan.Clone()
			if out.Hung {
				// no minimisation (every re-execution would cost the hang limit and leak more goroutines); report and stop
				path := filepath.Join(replayDir, fmt.Sprintf("%s-%d.json", prop, seed))
				writeJSON(path, &ReplayFile{Property: prop, Seed: seed, RunNo: n, Tier: tier, Violation: *v, Plan: plan, Events: out.Events})
				res.Viol = append(res.Viol, WorkerViolation{Violation: *v, Replay: path, RunNo: n, Seed: seed})
				break
			}
			minPlan, minOut, execs := minimise(t, sc, plan, *v)
			res.MinimiseExecs += execs
			mv, _ := firstNew(minOut, prop)
			if mv == nil {
				mv = v
				minPlan = orig
			}
			path := filepath.Join(replayDir, fmt.Sprintf("%s-%d.json", prop, seed))
			writeJSON(path, &ReplayFile{Property: prop, Seed: seed, RunNo: n, Tier: tier, Violation: *mv, Plan: minPlan, Original: orig, Events: minOut.Events})
			res.Viol = append(res.Viol, WorkerViolation{Violation: *mv, Replay: path, RunNo: n, Seed: seed})
			break
		}
	}
	res.WallS = time.Since(start).Seconds()
	if wantTrace {
		res.TraceHash = hex.EncodeToString(traceHash.Sum(nil)[:12])
	}
	for h := range distinct {
		res.Distinct = append(res.Distinct, h)
	}
	for h := range scheds {
		res.Scheds = append(res.Scheds, h)
	}
	if len(tagged) > 0 {
		res.Tagged = map[string][]uint64{}
		for tag, m := range tagged {
			for h := range m {
				res.Tagged[tag] = append(res.Tagged[tag], h)
			}
			sort.Slice(res.Tagged[tag], func(i, j int) bool { return res.Tagged[tag][i] < res.Tagged[tag][j] })
		}
	}
	sort.Slice(res.Distinct, func(i, j int) bool { return res.Distinct[i] < res.Distinct[j] })
	sort.Slice(res.Scheds, func(i, j int) bool { return res.Scheds[i] < res.Scheds[j] })
	if outPath != "" {
		writeJSON(outPath, res)
		if hungSeen {
			os.Exit(0) // goroutines of the hung execution are still stuck; do not let the test framework wait for them
		}
	} else {
		b, _ := json.MarshalIndent(res, "", " ")
		fmt.Println(string(b))
	}
}

func writeJSON(path string, v any) {
	b, err := json.MarshalIndent(v, "", " ")
	if err != nil {
		fmt.Fprintln(os.Stderr, "verifsim: marshal:", err)
		os.Exit(2)
	}
	_ = os.MkdirAll(filepath.Dir(path), 0o755)
	if err := os.WriteFile(path, b, 0o644); err != nil {
		fmt.Fprintln(os.Stderr, "verifsim: write:", err)
		os.Exit(2)
	}
}

// replayMain re-executes exactly the plan in a replay file, in this fresh process.
func replayMain(t *testing.T, sc *Scenario, path string) {
	b, err := os.ReadFile(path)
	if err != nil {
		fmt.Fprintln(os.Stderr, "verifsim: read replay:", err)
		os.Exit(2)
	}
	var rf ReplayFile
	if err := json.Unmarshal(b, &rf); err != nil {
		fmt.Fprintln(os.Stderr, "verifsim: parse replay:", err)
		os.Exit(2)
	}
	out := sc.Run(t, rf.Plan)
	if out.Hung && rf.Violation.Class == "" {
		fmt.Println("REPLAY hung again (wall-clock hang limit)")
		os.Exit(4)
	}
	if len(out.Infra) > 0 {
		fmt.Println("REPLAY infra:", strings.Join(out.Infra, "; "))
		os.Exit(2)
	}
	same := false
	for _, v := range out.Viol {
		if v.Property == "" {
			v.Property = sc.Prop
		}
		fmt.Printf("REPLAY violation property=%s class=%s sig=%q\n  %s\n", v.Property, v.Class, v.Sig, v.Detail)
		if v.Class == rf.Violation.Class && v.Sig == rf.Violation.Sig {
			same = true
		}
	}
	evSame := len(rf.Events) == len(out.Events) || len(rf.Events) == 0
	if evSame && len(rf.Events) > 0 {
		for i := range rf.Events {
			if rf.Events[i] != out.Events[i] {
				evSame = false
				break
			}
		}
	}
	switch {
	case same && out.Hung:
		fmt.Println("REPLAY reproduced the hang")
		os.Exit(1)
	case same && evSame:
		fmt.Println("REPLAY reproduced exactly (same violation, same event log)")
		os.Exit(1)
	case same:
		fmt.Println("REPLAY reproduced the violation but the event log differs")
		os.Exit(3)
	default:
		fmt.Println("REPLAY did not reproduce the recorded violation")
		os.Exit(0)
	}
}

// pinGlobalRand re-seeds the process-wide math/rand source (the only randomness repo dependencies draw
// from: cenkalti/backoff's jitter) so that one plan is one execution regardless of what ran before it in
// this process.
func pinGlobalRand(seed uint64) {
	mrand.Seed(int64(seed>>1) ^ 0x5eed)
}

// TestMeta prints a scenario's static metadata for the driver.
func TestMeta(t *testing.T) {
	prop := os.Getenv("VERIF_META")
	if prop == "" {
		t.Skip()
	}
	if prop == "*" {
		var ids []string
		for k := range scenarios {
			ids = append(ids, k)
		}
		sort.Strings(ids)
		b, _ := json.Marshal(ids)
		fmt.Println(string(b))
		return
	}
	sc := scenarios[prop]
	if sc == nil {
		fmt.Println("none")
		return
	}
	b, _ := json.Marshal(map[string]any{"level": sc.Level, "rule": sc.Rule, "components": sc.Components, "assumptions": sc.Assumptions, "finite": sc.Total != nil})
	fmt.Println(string(b))
}
