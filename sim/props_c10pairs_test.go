//go:build go1.25

package verifsim

import (
	"bytes"
	"fmt"
	"net/http"
	"net/http/httptest"
	"sync"
	"testing"
	"testing/synctest"
	"time"

	f_note "github.com/transparency-dev/formats/note"
	"github.com/transparency-dev/witness/internal/config"
	"github.com/transparency-dev/witness/internal/feeder/bastion"
	"github.com/transparency-dev/witness/internal/persistence"
	"github.com/transparency-dev/witness/internal/witness"
	"github.com/transparency-dev/witness/omniwitness"
	"golang.org/x/mod/sumdb/note"
	"golang.org/x/time/rate"
)

// gatedStore holds the first WriteOps call after arm() until release(): the request that makes it is "in flight inside the
// witness" while another request is sent.
type gatedStore struct {
	persistence.LogStatePersistence
	mu    sync.Mutex
	gate  chan struct{}
	taken bool
}

func (g *gatedStore) arm() {
	g.mu.Lock()
	g.gate, g.taken = make(chan struct{}), false
	g.mu.Unlock()
}

func (g *gatedStore) release() {
	g.mu.Lock()
	if g.gate != nil {
		close(g.gate)
		g.gate = nil
	}
	g.mu.Unlock()
}

func (g *gatedStore) WriteOps(id string) (persistence.LogStateWriteOps, error) {
	g.mu.Lock()
	var c chan struct{}
	if g.gate != nil && !g.taken {
		c, g.taken = g.gate, true // only the first caller waits
	}
	g.mu.Unlock()
	if c != nil {
		<-c
	}
	return g.LogStatePersistence.WriteOps(id)
}

// c10Pairs: requests that overlap inside the endpoint. After a sequential prefix, pairs (A, B) computed from the same witness
// state are sent so that A is inside Witness.Update (held at its first storage call) while B arrives. Whatever the
// endpoint does about that (serve B at once, or make it wait for A), each answer must be the protocol's answer for SOME order
// of the two; the order is observed (did B finish while A was held?), and the sequential model applied in that order.
func c10Pairs(t *testing.T, p *Plan) (r *c10Result) {
	r = &c10Result{rate: 1e9}
	defer func() {
		if x := recover(); x != nil {
			r.infra = fmt.Sprintf("bubble ended abnormally: %v", x)
			dumpGoroutines()
		}
	}()
	synctest.Test(t, func(t *testing.T) {
		pinGlobalRand(p.Seed)
		w := NewWorld(p)
		r.W = w
		inner, closeStore, err := openStoreFor(p)
		if err != nil {
			r.infra = err.Error()
			return
		}
		defer closeStore()
		store := &gatedStore{LogStatePersistence: inner}
		known, _ := w.KnownLogs()
		signers, _ := w.Signers()
		realW, err := witness.New(witness.Opts{Persistence: store, Signers: signers, KnownLogs: known})
		if err != nil {
			r.infra = err.Error()
			return
		}
		pub := w.WitKeys[0]
		for _, wk := range w.WitKeys {
			if wk.Cosig {
				pub = wk
				break
			}
		}
		var witV note.Verifier
		if pub.Cosig {
			witV, err = f_note.NewVerifierForCosignatureV1(pub.Key.VerifierString())
		} else {
			witV, err = note.NewVerifier(pub.Key.VerifierString())
		}
		if err != nil {
			r.infra = err.Error()
			return
		}
		var logs []config.Log
		for _, ld := range w.Logs {
			cl, err := config.NewLog(ld.Origin, ld.Key.VerifierString(), "http://unused/")
			if err != nil {
				r.infra = err.Error()
				return
			}
			logs = append(logs, cl)
		}
		h := http.MaxBytesHandler(bastion.VerifNewHandler(bastion.Config{Logs: logs, WitnessVerifier: witV,
			Limits: bastion.RequestLimits{TotalPerSecond: rate.Limit(1e9)}}, omniwitness.VerifWitnessAdapter(realW)), 16*1024)
		tracked := map[string]Stored{}
		prepare := func(op Op) *c10Req {
			src := w.Logs[((op.L%len(w.Logs))+len(w.Logs))%len(w.Logs)]
			req := resolveUpdate(w, op, tracked[src.ID])
			cr := &c10Req{Op: op, Req: req, Kind: "update", T: time.Now()}
			cr.Body = wireBody(req.Old, req.Proof, req.CP)
			return cr
		}
		send := func(cr *c10Req) {
			rec := httptest.NewRecorder()
			hr := httptest.NewRequest(http.MethodPost, "/add-checkpoint", bytes.NewReader(cr.Body))
			hr.RemoteAddr = "bastion:1"
			h.ServeHTTP(rec, hr)
			cr.Status, cr.CType, cr.RBody = rec.Code, rec.Header().Get("Content-Type"), rec.Body.Bytes()
		}
		judge := func(cr *c10Req, st Stored) {
			cr.St = st
			cr.Want = modelVerdict(true, cr.Req.SigValid, st, cr.Req.Size, cr.Req.Root, cr.Req.Old, cr.Req.Proof)
			for _, hh := range cr.Req.Proof {
				if len(hh) == 0 {
					cr.Want = "any"
				}
			}
			if len(cr.Body) > 16*1024 {
				cr.Want = "any"
			}
		}
		after := func(cr *c10Req, st Stored) Stored {
			// the state of the request's log once it has been answered (the cosigned bytes are not needed by the model)
			if cr.Status == 200 {
				return Stored{Has: true, Size: cr.Req.Size, Root: cr.Req.Root, Text: cr.Req.Text, Raw: []byte(cr.Req.Text)}
			}
			return st
		}
		observe := func(cr *c10Req) {
			if cur, err := realW.GetCheckpoint(cr.Req.LogID); err == nil {
				cr.After = parseStored(cur)
				tracked[cr.Req.LogID] = cr.After
			}
		}
		for i := 0; i < len(p.Ops); i++ {
			op := p.Ops[i]
			if op.K == "jump" {
				time.Sleep(time.Duration(op.Ms) * time.Millisecond)
				continue
			}
			if op.C != 1 || i+1 >= len(p.Ops) || p.Ops[i+1].K != "update" {
				cr := prepare(op)
				judge(cr, tracked[cr.Req.LogID])
				send(cr)
				observe(cr)
				r.reqs = append(r.reqs, cr)
				continue
			}
			// an overlapping pair
			a, b := prepare(op), prepare(p.Ops[i+1])
			i++
			stA, stB := tracked[a.Req.LogID], tracked[b.Req.LogID]
			store.arm()
			doneA, doneB := make(chan struct{}), make(chan struct{})
			go func() { defer close(doneA); send(a) }()
			synctest.Wait()
			go func() { defer close(doneB); send(b) }()
			synctest.Wait()
			bFirst := false
			select {
			case <-doneB:
				bFirst = true
			default:
			}
			store.release()
			<-doneA
			<-doneB
			if bFirst {
				judge(b, stB)
				if b.Req.LogID == a.Req.LogID {
					stA = after(b, stB)
				}
				judge(a, stA)
				r.reqs = append(r.reqs, b, a)
			} else {
				judge(a, stA)
				if b.Req.LogID == a.Req.LogID {
					stB = after(a, stA)
				}
				judge(b, stB)
				r.reqs = append(r.reqs, a, b)
			}
			// After: only the pair's final state is observable
			a.After, b.After = Stored{}, Stored{}
			observe(a)
			observe(b)
			a.Kind, b.Kind = "update(overlapped,first sent)", "update(overlapped,second sent)"
			a.Overlap, b.Overlap = true, true
		}
	})
	return r
}
