//go:build go1.25

package verifsim

// Engine W: the real witness over a real store behind the storage seam, driven
// by harness clients under the seeded quiescence scheduler, inside one
// synctest bubble (fake clock).

import (
	"bytes"
	"context"
	"crypto/sha256"
	"database/sql"
	"encoding/hex"
	"encoding/json"
	"errors"
	"fmt"
	sqlite3 "github.com/mattn/go-sqlite3"
	"github.com/transparency-dev/witness/internal/feeder"
	"golang.org/x/mod/sumdb/note"
	"io"
	"net/http"
	"net/url"
	"os"
	"path/filepath"
	"runtime"
	"runtime/debug"
	"sort"
	"strconv"
	"strings"
	"sync"
	"sync/atomic"
	"testing"
	"testing/synctest"
	"time"

	"github.com/gorilla/mux"
	_ "github.com/mattn/go-sqlite3"
	whttp "github.com/transparency-dev/witness/client/http"
	ihttp "github.com/transparency-dev/witness/internal/http"
	"github.com/transparency-dev/witness/internal/persistence"
	"github.com/transparency-dev/witness/internal/persistence/inmemory"
	psql "github.com/transparency-dev/witness/internal/persistence/sql"
	"github.com/transparency-dev/witness/internal/witness"
	"github.com/transparency-dev/witness/omniwitness"
	"google.golang.org/grpc/codes"
	"google.golang.org/grpc/status"
)

func goid() int64 {
	var b [64]byte
	n := runtime.Stack(b[:], false)
	f := strings.Fields(string(b[:n]))
	id, _ := strconv.ParseInt(f[1], 10, 64)
	return id
}

type Snapshot struct {
	Logs []string
	CP   map[string]string
	Err  string
}

func (a *Snapshot) Equal(b *Snapshot) bool {
	if a == nil || b == nil {
		return a == b
	}
	if a.Err != b.Err || len(a.Logs) != len(b.Logs) || len(a.CP) != len(b.CP) {
		return false
	}
	for i := range a.Logs {
		if a.Logs[i] != b.Logs[i] {
			return false
		}
	}
	for k, v := range a.CP {
		if w, ok := b.CP[k]; !ok || w != v {
			return false
		}
	}
	return true
}

type OpRec struct {
	Idx      int
	Op       Op
	Task     string
	Req      *Request
	Want     string
	StBefore Stored
	Invoke   int
	Return   int
	TInvoke  time.Time
	TReturn  time.Time
	Out      []byte
	Err      error
	Class    string
	List     []string
	Pre      *Snapshot
	Post     *Snapshot
	ReadBack []byte
	RBErr    error
	RBValid  bool
	Seams    []string
	Fired    []string // faults that hit this op ("key=kind")
	Done     bool
	SetsSeen int // number of successful Sets in the run when this op returned
	// HTTP read API (C16)
	GetID      string
	GetIDKind  string
	HStatus    int
	HBody      []byte
	HErr       error
	HRedirects int
	HCType     string
	CBytes     []byte
	CErr       error
	NetFault   string
	cancel     context.CancelFunc
}

type SetRec struct {
	LogID string
	Bytes []byte
	Event int
	OpIdx int
	Task  string
}

type Stats struct {
	Decisions    int
	SimNanos     int64
	Fired        map[string]int
	Probes       map[string]int
	Seams        int
	Inconclusive int
}

func newStats() Stats { return Stats{Fired: map[string]int{}, Probes: map[string]int{}} }

type parkedTask struct {
	key    string
	task   string
	resume chan struct{}
}

type Engine struct {
	plan       *Plan
	W          *World
	wit        *witness.Witness
	seamP      persistence.LogStatePersistence
	inner      persistence.LogStatePersistence
	side       persistence.LogStatePersistence
	db         *sql.DB
	sideDB     *sql.DB
	dir        string
	sequential bool
	aborting   atomic.Bool
	seamsOn    atomic.Bool
	vfsKind    string
	net        *SimNet
	hclient    *http.Client
	wclient    whttp.Witness

	mu       sync.Mutex
	names    map[int64]string
	parked   map[string]*parkedTask
	inflight map[string]bool
	holder   map[string]bool
	adapter  feeder.Witness
	occ      map[string]int
	faults   map[string]string
	cur      map[string]*OpRec
	finished map[string]bool
	open     map[*simW]bool

	event      int
	tapeIdx    int
	evlog      []string
	hist       []*OpRec
	sets       []SetRec
	tracked    map[string]Stored
	stats      Stats
	engineViol []Violation
	infra      []string
	start      time.Time
	ctr0       map[string]float64
	CtrDelta   map[string]float64
	prio       []int
}

// Result of one execution.
type RunResult struct {
	Plan        *Plan
	W           *World
	Hist        []*OpRec
	Sets        []SetRec
	EvLog       []string
	Stats       Stats
	Viol        []Violation // engine-level findings: wedge, panic
	Infra       []string    // harness trouble (exit 2)
	Final       map[string]Stored
	FinalSnap   *Snapshot
	FinalServed map[string]string // per log ID (and "adapter/"+ID): what GetCheckpoint answers after the run
	CtrDelta    map[string]float64
	SchedHash   string
	InUse       int
	SeedSnap    *Snapshot
	Completed   bool // the run reached its end inside the bubble
	Hung        bool // the run did not finish within hangLimit of wall-clock time
}

func (e *Engine) taskName() string {
	if e.sequential {
		return "c0"
	}
	id := goid()
	e.mu.Lock()
	defer e.mu.Unlock()
	if n, ok := e.names[id]; ok {
		return n
	}
	return "anon"
}

func (e *Engine) logf(format string, a ...any) {
	// called with e.mu held or from the only running goroutine
	e.evlog = append(e.evlog, fmt.Sprintf("%d ", e.event)+fmt.Sprintf(format, a...))
}

// seam is the single point every storage call passes. It numbers the call,
// looks up a planned fault for it, and (unless running inline) parks the caller
// until the scheduler releases it.
func (e *Engine) seam(op, id string) string {
	if e.aborting.Load() {
		return "abort"
	}
	if !e.seamsOn.Load() {
		return ""
	}
	name := e.taskName()
	e.mu.Lock()
	base := name + ":" + op
	n := e.occ[base]
	e.occ[base] = n + 1
	key := base + "#" + strconv.Itoa(n)
	kind := e.faults[key]
	e.stats.Seams++
	if kind == "cancelctx" {
		// not a storage fault: the caller's context ends while the update is at this storage call
		if r := e.cur[name]; r != nil && r.cancel != nil {
			r.cancel()
			r.Fired = append(r.Fired, key+"=cancelctx")
			e.stats.Fired["context_cancelled_at/"+op]++
		}
		kind = ""
	}
	if tf, ok := e.plan.Cfg.Extra["tail_from"]; ok && kind != "" {
		if r := e.cur[name]; r != nil && int64(r.Idx) >= tf {
			kind = "" // the tail of a fault plan is fault-free by definition
		}
	}
	if r := e.cur[name]; r != nil {
		r.Seams = append(r.Seams, key)
		if kind != "" {
			r.Fired = append(r.Fired, key+"="+kind)
		}
	}
	if kind != "" {
		e.stats.Fired[op+"/"+kind]++
	}
	if e.sequential || name == "anon" || (e.plan.Cfg.Seam == "driver" && !strings.HasPrefix(op, "drv.")) {
		e.mu.Unlock()
		return kind
	}
	p := &parkedTask{key: key, task: name, resume: make(chan struct{})}
	if _, dup := e.parked[key]; dup {
		e.mu.Unlock()
		panic("verifsim: duplicate park key " + key)
	}
	e.parked[key] = p
	delete(e.inflight, name)
	e.mu.Unlock()
	<-p.resume
	if e.aborting.Load() {
		return "abort"
	}
	return kind
}

// park is used by client goroutines for non-storage scheduling points.
func (e *Engine) park(name, what string) {
	e.mu.Lock()
	base := name + ":" + what
	n := e.occ[base]
	e.occ[base] = n + 1
	key := base + "#" + strconv.Itoa(n)
	p := &parkedTask{key: key, task: name, resume: make(chan struct{})}
	e.parked[key] = p
	delete(e.inflight, name)
	e.mu.Unlock()
	<-p.resume
}

func (e *Engine) setHolder(v bool) {
	n := e.taskName()
	e.mu.Lock()
	e.holder[n] = v
	e.mu.Unlock()
}

func injected(kind string) error {
	switch kind {
	case "unavailable":
		return status.Error(codes.Unavailable, "injected: storage unavailable")
	case "internal":
		return status.Error(codes.Internal, "injected: internal")
	case "conndone":
		return sql.ErrConnDone
	case "deadline":
		return context.DeadlineExceeded
	case "abort":
		return errors.New("verifsim: run aborted")
	case "busy": // what SQLite reports when another connection holds a lock for longer than the busy timeout: "database is locked"
		return sqlite3.Error{Code: sqlite3.ErrBusy}
	case "locked":
		return sqlite3.Error{Code: sqlite3.ErrLocked}
	case "ioerr":
		return sqlite3.Error{Code: sqlite3.ErrIoErr}
	case "full":
		return sqlite3.Error{Code: sqlite3.ErrFull}
	}
	return errors.New("injected storage failure (" + kind + ")")
}

// failingSigner is a witness key whose signing operation fails when told to.
type failingSigner struct {
	note.Signer
	fail func() bool
}

func (f failingSigner) Sign(msg []byte) ([]byte, error) {
	if f.fail() {
		return nil, errors.New("injected: signing key unavailable")
	}
	return f.Signer.Sign(msg)
}

// ---- storage seam, interface level

type simP struct {
	in persistence.LogStatePersistence
	e  *Engine
}

func (y simP) Init() error { return y.in.Init() }
func (y simP) Logs() ([]string, error) {
	if k := y.e.seam("Logs", ""); k != "" {
		return nil, injected(k)
	}
	l, err := y.in.Logs()
	if y.e.plan.Cfg.Seam == "driver" {
		y.e.setHolder(false)
	}
	return l, err
}
func (y simP) ReadOps(id string) (persistence.LogStateReadOps, error) {
	if k := y.e.seam("ReadOps", id); k != "" {
		return nil, injected(k)
	}
	r, err := y.in.ReadOps(id)
	if err != nil {
		return nil, err
	}
	return simR{r, y.e, id}, nil
}
func (y simP) WriteOps(id string) (persistence.LogStateWriteOps, error) {
	if k := y.e.seam("WriteOps", id); k != "" {
		return nil, injected(k)
	}
	w, err := y.in.WriteOps(id)
	if err != nil {
		y.e.setHolder(false)
		return nil, err
	}
	y.e.setHolder(true)
	h := &simW{in: w, e: y.e, id: id}
	y.e.mu.Lock()
	y.e.stats.Probes["write_handles_opened"]++
	y.e.open[h] = true
	y.e.mu.Unlock()
	return h, nil
}

type simR struct {
	in persistence.LogStateReadOps
	e  *Engine
	id string
}

func (y simR) GetLatest() ([]byte, error) {
	if k := y.e.seam("R.GetLatest", y.id); k != "" {
		return nil, injected(k)
	}
	b, err := y.in.GetLatest()
	if y.e.plan.Cfg.Seam == "driver" {
		y.e.setHolder(false)
	}
	return b, err
}

type simW struct {
	in     persistence.LogStateWriteOps
	e      *Engine
	id     string
	closed bool
}

func (y *simW) GetLatest() ([]byte, error) {
	if k := y.e.seam("W.GetLatest", y.id); k != "" {
		if dmg := damagedRead[k]; dmg != nil {
			b, err := y.in.GetLatest()
			if err != nil {
				return b, err
			}
			y.e.mu.Lock()
			y.e.stats.Probes["damaged_read_served"]++
			y.e.mu.Unlock()
			return dmg(append([]byte(nil), b...)), nil
		}
		return nil, injected(k)
	}
	return y.in.GetLatest()
}

// damagedRead: the read of the previous checkpoint "succeeds" but what comes back is not what was written (a flipped stored
// byte, a torn row, a blank row). Each damages the text the LOG signed, so that no reading of the bytes can verify: "corrupt"
// changes one of the first 40 characters of the root-hash line, "torn" keeps the first half, "blank" keeps nothing.
var damagedRead = map[string]func([]byte) []byte{
	"corrupt": func(b []byte) []byte {
		lines := bytes.SplitN(b, []byte("\n"), 4)
		if len(lines) < 4 || len(lines[2]) < 40 {
			return b[:len(b)/2]
		}
		at := len(lines[0]) + 1 + len(lines[1]) + 1 + len(b)%40
		if b[at] == 'A' {
			b[at] = 'B'
		} else {
			b[at] = 'A'
		}
		return b
	},
	"torn":  func(b []byte) []byte { return b[:len(b)/2] },
	"blank": func(b []byte) []byte { return b[:0] },
}

func (y *simW) Set(b []byte) error {
	if k := y.e.seam("W.Set", y.id); k != "" {
		return injected(k) // fail-stop: not applied
	}
	err := y.in.Set(b)
	if err == nil {
		y.e.recordSet(y.id, b)
		// a second scheduling point AFTER the write took effect: whatever the caller does next with the written value (fill
		// a cache, publish it, count it) can then happen after another task's complete update
		y.e.seam("W.Set.ret", y.id)
	} else {
		y.e.mu.Lock()
		y.e.stats.Probes["set_refused_by_store"]++
		y.e.mu.Unlock()
	}
	return err
}
func (y *simW) Close() error {
	k := y.e.seam("W.Close", y.id)
	err := y.in.Close()
	if !y.closed {
		y.closed = true
		y.e.setHolder(false)
		y.e.mu.Lock()
		y.e.stats.Probes["write_handles_closed"]++
		delete(y.e.open, y)
		y.e.mu.Unlock()
	}
	if k != "" && k != "abort" {
		return injected(k)
	}
	return err
}

func (e *Engine) recordSet(id string, b []byte) {
	name := e.taskName()
	e.mu.Lock()
	defer e.mu.Unlock()
	idx := -1
	if r := e.cur[name]; r != nil {
		idx = r.Idx
	}
	cp := append([]byte{}, b...)
	e.sets = append(e.sets, SetRec{LogID: id, Bytes: cp, Event: e.event, OpIdx: idx, Task: name})
	e.tracked[id] = parseStored(cp)
}

// ---- store set-up

var scratchRoot = func() string {
	if st, err := os.Stat("/dev/shm"); err == nil && st.IsDir() {
		return "/dev/shm"
	}
	return os.TempDir()
}()

var runCounter atomic.Int64

// scratchDir makes a fresh directory for one execution's files (a SQLite database, mostly). The name carries the process
// ID - so that directories left behind by a killed process can be recognised and removed - and a random part chosen by
// os.MkdirTemp, which never hands out an existing directory: process IDs are reused, and a database left behind by
// an earlier process must never be taken for this execution's empty one.
func scratchDir(tag string) (string, error) {
	runCounter.Add(1)
	return os.MkdirTemp(scratchRoot, fmt.Sprintf("verifsim-%s-%d-", tag, os.Getpid()))
}

// sweepScratch removes scratch directories whose owner is gone: those that carry this process's own ID (at start-up they
// can only be a dead namesake's) and those whose process no longer exists.
func sweepScratch() {
	ents, err := os.ReadDir(scratchRoot)
	if err != nil {
		return
	}
	for _, e := range ents {
		f := strings.Split(e.Name(), "-")
		if len(f) < 3 || f[0] != "verifsim" || !e.IsDir() {
			continue
		}
		pid, err := strconv.Atoi(f[len(f)-2])
		if err != nil || pid <= 0 {
			continue
		}
		if _, err := os.Stat(fmt.Sprintf("/proc/%d", pid)); pid == os.Getpid() || os.IsNotExist(err) {
			os.RemoveAll(filepath.Join(scratchRoot, e.Name()))
		}
	}
}

func (e *Engine) openStore() error {
	switch e.plan.Cfg.Store {
	case "sqlite":
		var path string
		if e.plan.Cfg.DBPath != "" {
			path = e.plan.Cfg.DBPath
		} else {
			var err error
			if e.dir, err = scratchDir("w"); err != nil {
				return err
			}
			path = filepath.Join(e.dir, "w.db")
		}
		drv := "sqlite3"
		if e.plan.Cfg.Seam == "driver" {
			drv = "sqlite3-sim"
		}
		dsn := path
		if e.plan.Cfg.Extra["vfs"] != 0 {
			if err := RegisterVFS(); err != nil {
				return err
			}
			dsn = "file:" + path + "?vfs=verifsim"
		}
		db, err := sql.Open(drv, dsn) // as cmd/omniwitness/monolith.go does (driver and VFS name aside)
		if err != nil {
			return err
		}
		db.SetMaxOpenConns(1) // ditto
		e.db = db
		e.inner = psql.NewPersistence(db)
		side, err := sql.Open("sqlite3", "file:"+path+"?_busy_timeout=1")
		if err != nil {
			return err
		}
		side.SetMaxOpenConns(1)
		e.sideDB = side
		e.side = psql.NewPersistence(side)
	default:
		e.inner = inmemory.NewPersistence()
		e.side = e.inner
	}
	return nil
}

func (e *Engine) closeStore() {
	e.mu.Lock()
	leaked := make([]*simW, 0, len(e.open))
	for h := range e.open {
		leaked = append(leaked, h)
	}
	e.mu.Unlock()
	for _, h := range leaked {
		_ = h.in.Close() // a handle the code under test leaked: end its transaction so database/sql's goroutines can finish
	}
	if e.db != nil {
		e.db.Close()
	}
	if e.sideDB != nil {
		e.sideDB.Close()
	}
	if e.dir != "" {
		os.RemoveAll(e.dir)
	}
}

// snapshot reads every log's latest checkpoint and the log list through the
// fault-free side handle.
func (e *Engine) snapshot() *Snapshot {
	s := &Snapshot{CP: map[string]string{}}
	logs, err := e.side.Logs()
	if err != nil {
		s.Err = "Logs: " + err.Error()
		return s
	}
	s.Logs = append([]string{}, logs...)
	sort.Strings(s.Logs)
	ids := map[string]bool{}
	for _, l := range logs {
		ids[l] = true
	}
	for _, l := range e.W.Logs {
		ids[l.ID] = true
	}
	for id := range ids {
		r, err := e.side.ReadOps(id)
		if err != nil {
			s.Err = "ReadOps: " + err.Error()
			return s
		}
		b, err := r.GetLatest()
		if err != nil {
			if status.Code(err) == codes.NotFound {
				continue
			}
			s.Err = "GetLatest: " + err.Error()
			return s
		}
		s.CP[id] = string(b)
	}
	return s
}

// ---- op execution

func (e *Engine) trackedFor(id string) Stored {
	e.mu.Lock()
	defer e.mu.Unlock()
	return e.tracked[id]
}

func (e *Engine) execOp(idx int, task string, invokeEvent int) {
	op := e.plan.Ops[idx]
	rec := &OpRec{Idx: idx, Op: op, Task: task, Invoke: invokeEvent, Return: -1}
	e.mu.Lock()
	e.hist = append(e.hist, rec)
	e.cur[task] = rec
	e.mu.Unlock()
	defer func() {
		e.mu.Lock()
		rec.SetsSeen = len(e.sets)
		delete(e.cur, task)
		e.mu.Unlock()
	}()
	ctx := context.Background()
	switch op.K {
	case "jump":
		// executed by the scheduler (root) in concurrent mode; inline here in sequential mode
		if e.sequential {
			time.Sleep(time.Duration(op.Ms) * time.Millisecond)
			e.mu.Lock()
			e.stats.Fired["clock_jump"]++
			e.mu.Unlock()
		}
		rec.Done = true
	case "read":
		l := e.W.Logs[op.L%len(e.W.Logs)]
		id := l.ID
		if op.M == "unknownlog" {
			id = LogID(fmt.Sprintf("unknown-%d", op.MV))
		}
		rec.Req = &Request{LogIdx: l.Idx, LogID: id, Known: op.M != "unknownlog"}
		rec.TInvoke = time.Now()
		if e.plan.Cfg.Extra["via_adapter"] != 0 {
			// as feeders and the distributor read: through the one adapter Main builds
			rec.Out, rec.Err = e.adapter.GetLatestCheckpoint(ctx, id)
		} else {
			rec.Out, rec.Err = e.wit.GetCheckpoint(id)
		}
		rec.TReturn = time.Now()
		rec.Done = true
	case "list":
		rec.TInvoke = time.Now()
		rec.List, rec.Err = e.wit.GetLogs()
		rec.TReturn = time.Now()
		rec.Done = true
	case "get", "getlist":
		e.execGet(rec, op)
		rec.Done = true
	default: // update
		src := e.W.Logs[((op.L%len(e.W.Logs))+len(e.W.Logs))%len(e.W.Logs)]
		req := resolveUpdate(e.W, op, e.trackedFor(src.ID))
		rec.Req = req
		rec.StBefore = e.trackedFor(req.LogID)
		rec.Want = modelVerdict(req.Known, req.SigValid, rec.StBefore, req.Size, req.Root, req.Old, req.Proof)
		if e.plan.Cfg.Snap {
			rec.Pre = e.snapshot()
		}
		if tf, ok := e.plan.Cfg.Extra["tail_from"]; ok && e.vfsKind != "" && int64(idx) >= tf {
			VFSSetFail(-1, -1, 0)
		}
		uctx, ucancel := context.WithCancel(ctx)
		if op.Ms == -1 {
			ucancel() // the caller's context has already ended when the request arrives (a client that went away, an expired round)
		}
		e.mu.Lock()
		rec.cancel = ucancel
		e.mu.Unlock()
		rec.TInvoke = time.Now()
		if e.plan.Cfg.Extra["via_adapter"] != 0 {
			// through the adapter omniwitness.Main puts between the witness and its feeders / the bastion endpoint
			rec.Out, rec.Err = e.adapter.Update(uctx, req.LogID, req.Old, req.CP, req.Proof)
		} else {
			rec.Out, rec.Err = e.wit.Update(uctx, req.LogID, req.Old, req.CP, req.Proof)
		}
		rec.TReturn = time.Now()
		rec.Class = classify(rec.Err)
		ucancel()
		if e.sequential {
			synctest.Wait() // anything the update left running in the background gets to finish before the store is looked at
		}
		if e.vfsKind != "" {
			if n := VFSFired(); n > 0 {
				e.mu.Lock()
				rec.Fired = append(rec.Fired, fmt.Sprintf("vfs:io#0=%s", e.vfsKind))
				e.stats.Fired["vfs/"+e.vfsKind] += int(n)
				e.mu.Unlock()
			}
		}
		if e.plan.Cfg.Snap {
			rec.Post = e.snapshot()
		}
		if e.plan.Cfg.ReadBack {
			before := 0
			e.mu.Lock()
			before = len(e.sets)
			e.mu.Unlock()
			rec.ReadBack, rec.RBErr = e.wit.GetCheckpoint(req.LogID)
			if e.plan.Cfg.Extra["http_readback"] != 0 && req.Known {
				// the same read through the registered HTTP handler
				if resp, err := e.hclient.Get("http://witness.example/witness/v0/logs/" + req.LogID + "/checkpoint"); err == nil {
					rec.HStatus = resp.StatusCode
					rec.HBody, _ = io.ReadAll(resp.Body)
					resp.Body.Close()
				} else {
					rec.HErr = err
				}
			}
			e.mu.Lock()
			rec.RBValid = len(e.sets) == before
			e.mu.Unlock()
		}
		rec.Done = true
	}
}

// ---- the scheduler

const maxDecisions = 20000

func (e *Engine) nextTape() uint32 {
	if e.tapeIdx < len(e.plan.Tape) {
		v := e.plan.Tape[e.tapeIdx]
		e.tapeIdx++
		return v
	}
	return 0
}

var jumpTable = []time.Duration{
	time.Millisecond, 700 * time.Millisecond, 2 * time.Second, 31 * time.Second, 5 * time.Minute,
	61 * time.Minute, 25 * time.Hour, 30 * 24 * time.Hour,
}

func taskOf(key string) string { return key[:strings.IndexByte(key, ':')] }

func (e *Engine) runConcurrent() {
	cfg := e.plan.Cfg
	nClients := cfg.Clients
	if nClients < 1 {
		nClients = 1
	}
	perClient := make([][]int, nClients)
	for i, op := range e.plan.Ops {
		c := ((op.C % nClients) + nClients) % nClients
		perClient[c] = append(perClient[c], i)
	}
	var wg sync.WaitGroup
	for c := 0; c < nClients; c++ {
		name := fmt.Sprintf("c%d", c)
		wg.Add(1)
		go func(name string, ops []int) {
			defer wg.Done()
			defer func() {
				if r := recover(); r != nil {
					e.mu.Lock()
					e.engineViol = append(e.engineViol, Violation{Class: "panic", Sig: "panic", Detail: fmt.Sprintf("task %s: %v\n%s", name, r, debug.Stack())})
					e.finished[name] = true
					delete(e.inflight, name)
					e.mu.Unlock()
				}
			}()
			e.mu.Lock()
			e.names[goid()] = name
			e.mu.Unlock()
			for _, idx := range ops {
				kind := "op"
				if e.plan.Ops[idx].K == "jump" {
					kind = "jump"
				}
				e.park(name, kind)
				if e.aborting.Load() {
					break
				}
				e.mu.Lock()
				ev := e.event
				e.mu.Unlock()
				e.execOp(idx, name, ev)
				e.park(name, "ret")
				if e.aborting.Load() {
					break
				}
			}
			e.mu.Lock()
			e.finished[name] = true
			delete(e.inflight, name)
			e.mu.Unlock()
		}(name, perClient[c])
	}
	done := make(chan struct{})
	go func() { wg.Wait(); close(done) }()

	prio := append([]int{}, cfg.Prio...)
	for len(prio) < nClients {
		prio = append(prio, len(prio))
	}
	changeAt := map[int]bool{}
	for _, c := range cfg.ChangeAt {
		changeAt[c] = true
	}
	idleSleeps := 0
	for {
		synctest.Wait()
		select {
		case <-done:
			return
		default:
		}
		e.mu.Lock()
		if e.stats.Decisions > maxDecisions && int64(e.stats.Decisions) > cfg.Extra["max_decisions"] {
			e.infra = append(e.infra, "decision cap exceeded")
			e.mu.Unlock()
			e.abort(done)
			return
		}
		keys := make([]string, 0, len(e.parked))
		for k := range e.parked {
			keys = append(keys, k)
		}
		sort.Strings(keys)
		// forced: completed operations get their return stamp at once
		forced := ""
		for _, k := range keys {
			if strings.Contains(k, ":ret#") {
				forced = k
				break
			}
		}
		if forced != "" {
			p := e.parked[forced]
			delete(e.parked, forced)
			e.event++
			for i := len(e.hist) - 1; i >= 0; i-- {
				// a task has at most one operation without a return stamp: its latest
				if r := e.hist[i]; r.Task == p.task {
					if r.Return < 0 && r.Done {
						r.Return = e.event
					}
					break
				}
			}
			e.logf("ret %s", p.task)
			e.inflight[p.task] = true
			e.mu.Unlock()
			close(p.resume)
			continue
		}
		// On SQL stores a task that is running but neither parked nor finished is waiting for the pool's only
		// connection; database/sql picks among several waiters at random, so at most one may wait (see DESIGN 3.3).
		poolBusy := len(e.inflight) > 0 && e.db != nil
		var elig []string
		for _, k := range keys {
			t := taskOf(k)
			if poolBusy && !e.holder[t] && !(strings.Contains(k, ":op#") && cfg.Seam == "iface") {
				continue
			}
			elig = append(elig, k)
		}
		if poolBusy {
			e.stats.Probes["waiter_blocked_in_pool"]++
		}
		if len(elig) == 0 && len(keys) > 0 {
			// the blocked task is not waiting for the connection after all (it waits for another task, e.g. behind a
			// lock or a coalesced call): let the parked tasks go on rather than call this a wedge
			elig = keys
			e.stats.Probes["pool_rule_relaxed"]++
		}
		if len(elig) == 0 {
			// nothing can be released: let simulated time pass; if that does not help, the run is wedged
			idleSleeps++
			if idleSleeps > 3 {
				e.engineViol = append(e.engineViol, Violation{Class: "wedge", Sig: "wedge",
					Detail: fmt.Sprintf("no task can proceed and 3h of simulated time changed nothing; parked=%v blocked=%v", keys, mapKeys(e.inflight))})
				e.logf("wedge")
				e.mu.Unlock()
				e.abort(done)
				return
			}
			e.mu.Unlock()
			time.Sleep(time.Hour)
			continue
		}
		idleSleeps = 0
		e.stats.Decisions++
		// optional clock jump as an extra action
		if cfg.Jumps && e.tapeIdx < len(e.plan.Tape) { // an exhausted tape reads as zeros, which would mean "jump" for ever
			v := e.nextTape()
			if v%5 == 0 {
				d := jumpTable[int(v/5)%len(jumpTable)]
				e.event++
				e.logf("sleep %v", d)
				e.stats.Fired["clock_jump"]++
				e.mu.Unlock()
				time.Sleep(d)
				continue
			}
		}
		var k string
		switch cfg.Strategy {
		case "pct":
			if changeAt[e.stats.Decisions] {
				// demote the currently highest-priority eligible task
				best := e.bestByPrio(elig, prio)
				t := clientIndex(taskOf(best))
				if t >= 0 && t < len(prio) {
					min := 0
					for _, p := range prio {
						if p < min {
							min = p
						}
					}
					prio[t] = min - 1
				}
			}
			k = e.bestByPrio(elig, prio)
		case "holdat":
			// the task that reaches the seam named in Notes["hold_key"] stays parked there while anything else can run; until
			// then that task runs alone (so the run is: it gets to the hold point, everybody else runs to completion, it resumes)
			hk := cfg.Notes["hold_key"]
			ht := taskOf(hk)
			var mine, others []string
			atHold := false
			for _, x := range elig {
				switch {
				case x == hk:
					atHold = true
				case taskOf(x) == ht:
					mine = append(mine, x)
				default:
					others = append(others, x)
				}
			}
			switch {
			case !atHold && len(mine) > 0:
				k = mine[0]
			case len(others) > 0:
				k = others[int(e.nextTape())%len(others)]
			default:
				k = elig[0]
			}
		case "hold":
			held := fmt.Sprintf("c%d", cfg.Hold)
			var others []string
			for _, x := range elig {
				if taskOf(x) != held {
					others = append(others, x)
				}
			}
			if len(others) == 0 {
				others = elig
			}
			if len(others) == 1 {
				k = others[0]
			} else {
				k = others[int(e.nextTape())%len(others)]
			}
		default:
			if len(elig) == 1 {
				k = elig[0]
			} else {
				k = elig[int(e.nextTape())%len(elig)]
			}
		}
		p := e.parked[k]
		delete(e.parked, k)
		e.event++
		e.logf("rel %s", k)
		e.inflight[p.task] = true
		isJump := strings.Contains(k, ":jump#")
		var d time.Duration
		if isJump {
			// the jump op is the next not-yet-executed op of that client
			d = e.pendingJump(p.task)
			e.stats.Fired["clock_jump"]++
		}
		e.mu.Unlock()
		if isJump {
			time.Sleep(d)
		}
		close(p.resume)
	}
}

func (e *Engine) pendingJump(task string) time.Duration {
	c := clientIndex(task)
	n := e.plan.Cfg.Clients
	if n < 1 {
		n = 1
	}
	done := map[int]bool{}
	for _, r := range e.hist {
		done[r.Idx] = true
	}
	for i, op := range e.plan.Ops {
		if ((op.C%n)+n)%n == c && !done[i] {
			return time.Duration(op.Ms) * time.Millisecond
		}
	}
	return 0
}

func clientIndex(task string) int {
	if len(task) < 2 || task[0] != 'c' {
		return -1
	}
	n, err := strconv.Atoi(task[1:])
	if err != nil {
		return -1
	}
	return n
}

func (e *Engine) bestByPrio(elig []string, prio []int) string {
	best, bp := elig[0], -1<<30
	for _, k := range elig {
		t := clientIndex(taskOf(k))
		p := -1 << 29
		if t >= 0 && t < len(prio) {
			p = prio[t]
		}
		if p > bp {
			best, bp = k, p
		}
	}
	return best
}

func mapKeys(m map[string]bool) []string {
	var out []string
	for k := range m {
		out = append(out, k)
	}
	sort.Strings(out)
	return out
}

// abort unblocks everything so that the bubble can end.
func (e *Engine) abort(done chan struct{}) {
	e.aborting.Store(true)
	e.mu.Lock()
	leaked := make([]*simW, 0, len(e.open))
	for h := range e.open {
		leaked = append(leaked, h)
	}
	e.mu.Unlock()
	for _, h := range leaked {
		_ = h.in.Close()
	}
	if e.db != nil {
		e.db.Close() // fails every request waiting in the pool
	}
	for i := 0; i < 100; i++ {
		synctest.Wait()
		e.mu.Lock()
		ps := make([]*parkedTask, 0, len(e.parked))
		for k, p := range e.parked {
			ps = append(ps, p)
			delete(e.parked, k)
		}
		e.mu.Unlock()
		for _, p := range ps {
			close(p.resume)
		}
		select {
		case <-done:
			return
		default:
		}
		if len(ps) == 0 {
			select {
			case <-done:
				return
			case <-time.After(time.Hour):
			}
		}
	}
}

func (e *Engine) runSequential() {
	for i := range e.plan.Ops {
		e.event++
		func() {
			defer func() {
				if r := recover(); r != nil {
					e.engineViol = append(e.engineViol, Violation{Class: "panic", Sig: "panic", OpIdx: i, Detail: fmt.Sprintf("op %d: %v\n%s", i, r, debug.Stack())})
				}
			}()
			e.execOp(i, "c0", e.event)
		}()
		e.event++
		e.hist[len(e.hist)-1].Return = e.event
		r := e.hist[len(e.hist)-1]
		e.logf("op %d %s -> %s", i, r.Op.K, r.Class)
	}
}

// hangLimit is the wall-clock time one execution may take before it is declared hung. Ordinary executions
// take milliseconds; inside a bubble every sleep and timeout is simulated, so only a goroutine blocked on
// something that is neither a seam nor the fake clock (a leaked lock, say) or a CPU spin can exhaust it.
const hangLimit = 20 * time.Second

// Execute runs one plan in a fresh bubble and returns the recorded history.
func Execute(t *testing.T, plan *Plan) *RunResult {
	done := make(chan *RunResult, 1)
	go func() { done <- executeInBubble(t, plan) }()
	// the limit is counted in one-second ticks that each really elapsed, not as one long timer: when the whole machine is
	// paused (a VM snapshot) or the process is not scheduled for a while, one late tick is lost instead of the entire
	// allowance, so a stall of the sandbox is not mistaken for a hang of the code under test
	limit := int(hangLimit / time.Second)
	if v := plan.Cfg.Extra["hang_s"]; v > 0 {
		limit = int(v) // long-history plans legitimately run for longer
	}
	for i := 0; i < limit; i++ {
		select {
		case r := <-done:
			return r
		case <-time.After(time.Second):
		}
	}
	select {
	case r := <-done:
		return r
	default:
	}
	return &RunResult{Plan: plan, W: NewWorld(plan), Stats: newStats(), Hung: true, Viol: []Violation{{Class: "wedge", Sig: "wedge/hard_hang",
		Detail: fmt.Sprintf("the execution did not finish within %v of wall-clock time: a task is blocked on something that is neither a storage call nor the (simulated) clock - e.g. a lock that is never released - or spins", hangLimit)}}}
}

func executeInBubble(t *testing.T, plan *Plan) (res *RunResult) {
	for _, o := range plan.Ops {
		if o.Rep > 1 {
			q := plan.Clone()
			q.Ops = nil
			for _, o := range plan.Ops {
				n := max(1, o.Rep)
				o.Rep = 0
				for i := 0; i < n; i++ {
					q.Ops = append(q.Ops, o)
				}
			}
			plan = q
			break
		}
	}
	res = &RunResult{Plan: plan}
	defer func() {
		if r := recover(); r != nil {
			// synctest reports goroutines left blocked when the bubble ends
			if res.Completed {
				wedged := false
				for _, v := range res.Viol {
					if v.Class == "wedge" {
						wedged = true
					}
				}
				if !wedged {
					res.Viol = append(res.Viol, Violation{Class: "wedge", Sig: "wedge/blocked_goroutines_at_end",
						Detail: fmt.Sprintf("when the run ended, goroutines started by the code under test were still blocked for good (%v) - typically database/sql's watcher of a transaction that was neither committed nor rolled back", r)})
				}
			} else {
				res.Infra = append(res.Infra, fmt.Sprintf("bubble ended abnormally: %v", r))
			}
			dumpGoroutines()
		}
	}()
	synctest.Test(t, func(t *testing.T) {
		pinGlobalRand(plan.Seed)
		e := &Engine{plan: plan, W: NewWorld(plan), names: map[int64]string{}, parked: map[string]*parkedTask{},
			inflight: map[string]bool{}, holder: map[string]bool{}, occ: map[string]int{}, faults: map[string]string{},
			cur: map[string]*OpRec{}, finished: map[string]bool{}, open: map[*simW]bool{}, tracked: map[string]Stored{}, stats: newStats()}
		res.W = e.W
		for _, f := range plan.Faults {
			e.faults[f.At] = f.Kind
		}
		e.sequential = plan.Cfg.Seam == "none" || plan.Cfg.Seam == ""
		e.start = time.Now()
		if err := e.openStore(); err != nil {
			res.Infra = append(res.Infra, "open store: "+err.Error())
			return
		}
		defer e.closeStore()
		known, err := e.W.KnownLogs()
		if err != nil {
			res.Infra = append(res.Infra, "known logs: "+err.Error())
			return
		}
		signers, err := e.W.Signers()
		if err != nil {
			res.Infra = append(res.Infra, "signers: "+err.Error())
			return
		}
		if k := e.plan.Cfg.Extra["signfail"]; k > 0 {
			// one of this witness's keys (signfail_key) is out of order from its k-th signing operation on, for signfail_len
			// operations (a key held in an HSM or by a remote signer): an update must then be refused as a whole, never released
			// with some of the configured keys missing
			var n atomic.Int64
			down := int(e.plan.Cfg.Extra["signfail_key"]) % len(signers)
			span := max(1, e.plan.Cfg.Extra["signfail_len"])
			for i, s := range signers {
				if i != down {
					continue
				}
				signers[i] = failingSigner{Signer: s, fail: func() bool {
					c := n.Add(1)
					hit := c >= k && c < k+span
					if hit {
						e.mu.Lock()
						e.stats.Fired["signer/fail"]++
						e.mu.Unlock()
					}
					return hit
				}}
			}
		}
		e.seamP = simP{in: e.inner, e: e}
		wit, err := witness.New(witness.Opts{Persistence: e.seamP, Signers: signers, KnownLogs: known})
		if err != nil {
			res.Infra = append(res.Infra, "witness.New: "+err.Error())
			return
		}
		e.wit = wit
		e.adapter = omniwitness.VerifWitnessAdapter(wit) // one per witness, as in Main
		router := mux.NewRouter()
		ihttp.NewServer(wit).RegisterHandlers(router)
		e.net = NewSimNet()
		e.net.Hosts["witness.example"] = router
		e.hclient = &http.Client{Transport: e.net, Timeout: 30 * time.Second}
		wu, _ := url.Parse("http://witness.example/")
		e.wclient = whttp.NewWitness(wu, e.hclient)
		curEngine.Store(e)
		defer curEngine.Store(nil)
		e.seamsOn.Store(true)
		defer e.seamsOn.Store(false)
		if e.side != e.inner {
			_ = e.side.Init()
		}
		if plan.Cfg.DBPath != "" {
			// continuing on an existing store: the harness's view starts from what the store holds
			seed := e.snapshot()
			res.SeedSnap = seed
			for id, b := range seed.CP {
				e.tracked[id] = parseStored([]byte(b))
			}
		}
		e.ctr0 = recorder.Snapshot()
		for _, f := range plan.Faults {
			if strings.HasPrefix(f.At, "vfs:") && plan.Cfg.Extra["vfs"] != 0 {
				var a, b int64
				fmt.Sscanf(f.At, "vfs:%d-%d", &a, &b)
				mode := map[string]int{"ioerr": 1, "full": 2, "short": 3}[f.Kind]
				base := VFSOpCount()
				VFSFired()
				VFSSetFail(base+a, base+b, mode)
				e.vfsKind = f.Kind
				defer VFSSetFail(-1, -1, 0)
			}
		}
		if e.sequential {
			e.runSequential()
		} else {
			e.runConcurrent()
		}
		e.CtrDelta = recorder.Delta(e.ctr0)
		e.seamsOn.Store(false)
		if !e.aborting.Load() {
			res.FinalSnap = e.snapshot()
			// ... and what the witness itself (and the adapter in front of it) serves once everything has come to rest
			res.FinalServed = map[string]string{}
			for _, l := range e.W.Logs {
				if b, err := e.wit.GetCheckpoint(l.ID); err == nil {
					res.FinalServed[l.ID] = string(b)
				}
				if b, err := e.adapter.GetLatestCheckpoint(context.Background(), l.ID); err == nil {
					res.FinalServed["adapter/"+l.ID] = string(b)
				}
			}
		}
		if e.db != nil {
			res.InUse = e.db.Stats().InUse
		}
		for k, v := range e.net.Fired {
			e.stats.Fired[k] += v
		}
		e.stats.SimNanos = int64(time.Since(e.start))
		res.Hist, res.Sets, res.EvLog, res.Stats = e.hist, e.sets, e.evlog, e.stats
		res.Viol, res.Infra = e.engineViol, append(res.Infra, e.infra...)
		res.Final = e.tracked
		res.CtrDelta = e.CtrDelta
		h := sha256.New()
		for _, l := range e.evlog {
			h.Write([]byte(l))
			h.Write([]byte{'\n'})
		}
		res.SchedHash = hex.EncodeToString(h.Sum(nil)[:8])
		res.Completed = true
	})
	return res
}

// servedIsStored: once a run has come to rest, what the witness (and the adapter) serve for a log is what the store holds.
func servedIsStored(res *RunResult) []Violation {
	var out []Violation
	if res.FinalSnap == nil || res.FinalSnap.Err != "" || res.FinalServed == nil {
		return nil
	}
	// the log list names each log with a stored checkpoint exactly once, and nothing else
	seen := map[string]int{}
	for _, id := range res.FinalSnap.Logs {
		seen[id]++
	}
	for id, n := range seen {
		if n > 1 {
			out = append(out, Violation{Class: "read_after_write_differs", Sig: "read_after_write_differs/at_rest/log_list_duplicate", OpIdx: -1,
				Detail: fmt.Sprintf("after the run came to rest the log list names %s %d times: %v", id, n, res.FinalSnap.Logs)})
		}
		if _, ok := res.FinalSnap.CP[id]; !ok {
			out = append(out, Violation{Class: "read_after_write_differs", Sig: "read_after_write_differs/at_rest/log_list_extra", OpIdx: -1,
				Detail: fmt.Sprintf("after the run came to rest the log list names %s, for which nothing is stored", id)})
		}
	}
	for id := range res.FinalSnap.CP {
		if seen[id] == 0 {
			out = append(out, Violation{Class: "read_after_write_differs", Sig: "read_after_write_differs/at_rest/log_list_missing", OpIdx: -1,
				Detail: fmt.Sprintf("after the run came to rest a checkpoint is stored for %s, but the log list %v does not name it", id, res.FinalSnap.Logs)})
		}
	}
	for _, l := range res.W.Logs {
		stored := res.FinalSnap.CP[l.ID]
		for _, via := range []string{"", "adapter/"} {
			if got := res.FinalServed[via+l.ID]; got != stored {
				out = append(out, Violation{Class: "read_after_write_differs", Sig: "read_after_write_differs/at_rest/" + via, OpIdx: -1,
					Detail: fmt.Sprintf("after the run came to rest the store holds %s for log %d, but a read through the witness %sanswers %s", short([]byte(stored)), l.Idx, strings.TrimSuffix(via, "/"), short([]byte(got)))})
			}
		}
	}
	return out
}

func isNotFound(err error) bool {
	return err != nil && (status.Code(err) == codes.NotFound || errors.Is(err, os.ErrNotExist)) // the adapter's spelling of "nothing stored"
}

func dumpGoroutines() {
	if os.Getenv("VERIF_DEBUG") != "" {
		buf := make([]byte, 1<<20)
		n := runtime.Stack(buf, true)
		fmt.Fprintf(os.Stderr, "%s\n", buf[:n])
	}
}

// oddID builds the log ID variants C16 asks the read API about.
func oddID(w *World, op Op) (id, kind string, known bool) {
	l := w.Logs[((op.L%len(w.Logs))+len(w.Logs))%len(w.Logs)]
	switch op.M {
	case "", "known":
		return l.ID, "known", true
	case "unknown":
		return LogID(fmt.Sprintf("nobody-%d", op.MV)), "unknown", false
	case "empty":
		return "", "empty", false
	case "dots":
		return "..", "dots", false
	case "dot":
		return ".", "dot", false
	case "slash":
		return l.ID + "/x", "slash", false
	case "encslash":
		return l.ID[:10] + "%2F" + l.ID[10:], "encslash", false
	case "upper":
		return strings.ToUpper(l.ID), "upper", strings.ToUpper(l.ID) == l.ID
	case "suffix":
		return l.ID + "0", "suffix", false
	case "prefix":
		return l.ID[:len(l.ID)-1], "prefix", false
	case "long":
		return strings.Repeat("a", 4000), "long", false
	case "space":
		return l.ID + "%20", "space", false
	case "dashes":
		return "---", "dashes", false
	case "star":
		return "*", "star", false
	case "ctrl":
		// a known ID with percent-encoded control characters around or inside it: it names no log
		return []string{l.ID + "%0A", l.ID + "%0D%0A", l.ID[:len(l.ID)/2] + "%00" + l.ID[len(l.ID)/2:], l.ID + "%7F", "%C2%85" + l.ID}[op.MV%5], "ctrl", false
	}
	return l.ID, "known", true
}

func (e *Engine) execGet(rec *OpRec, op Op) {
	if op.K == "getlist" {
		rec.TInvoke = time.Now()
		resp, err := e.hclient.Get("http://witness.example/witness/v0/logs")
		rec.HErr = err
		if err == nil {
			rec.HStatus = resp.StatusCode
			rec.HCType = resp.Header.Get("Content-Type")
			rec.HBody, _ = io.ReadAll(resp.Body)
			resp.Body.Close()
			if resp.StatusCode == 200 {
				if jerr := json.Unmarshal(rec.HBody, &rec.List); jerr != nil {
					rec.HErr = fmt.Errorf("log list is not JSON: %v", jerr)
				}
			}
		}
		rec.TReturn = time.Now()
		return
	}
	id, kind, known := oddID(e.W, op)
	rec.GetID, rec.GetIDKind = id, kind
	l := e.W.Logs[((op.L%len(e.W.Logs))+len(e.W.Logs))%len(e.W.Logs)]
	lid := l.ID
	if !known {
		lid = "\x00none"
	}
	rec.Req = &Request{LogIdx: l.Idx, LogID: lid, Known: known}
	rec.StBefore = e.trackedFor(lid)
	rec.TInvoke = time.Now()
	if op.P != "" {
		// a network fault on the next request (client mapping)
		e.net.mu.Lock()
		e.net.Faults[fmt.Sprintf("net#%d", len(e.net.Log))] = op.P
		e.net.mu.Unlock()
		rec.NetFault = op.P
	}
	if op.B == 0 {
		// raw GET through the registered router, following the router's own redirects
		redirects := 0
		hc := &http.Client{Transport: e.net, Timeout: 30 * time.Second, CheckRedirect: func(req *http.Request, via []*http.Request) error {
			redirects = len(via)
			if len(via) > 5 {
				return http.ErrUseLastResponse
			}
			return nil
		}}
		resp, err := hc.Get("http://witness.example/witness/v0/logs/" + id + "/checkpoint")
		rec.HErr = err
		if err == nil {
			rec.HStatus = resp.StatusCode
			rec.HCType = resp.Header.Get("Content-Type")
			var rerr error
			rec.HBody, rerr = io.ReadAll(resp.Body)
			if rerr != nil {
				rec.HErr = rerr
			}
			resp.Body.Close()
		}
		rec.HRedirects = redirects
	} else {
		rec.CBytes, rec.CErr = e.wclient.GetLatestCheckpoint(context.Background(), id)
	}
	rec.TReturn = time.Now()
}
