//go:build go1.25

package verifsim

import (
	"context"
	"crypto/sha256"
	"errors"
	"fmt"
	"github.com/transparency-dev/witness/internal/persistence"
	"io/fs"
	"net/http"
	"os"
	"strings"
	"sync"
	"testing"
	"testing/synctest"
	"time"

	"github.com/transparency-dev/formats/log"
	"github.com/transparency-dev/witness/internal/config"
	"github.com/transparency-dev/witness/internal/feeder"
	"github.com/transparency-dev/witness/internal/feeder/rekor"
	"github.com/transparency-dev/witness/internal/persistence/inmemory"
	"github.com/transparency-dev/witness/internal/witness"
	"github.com/transparency-dev/witness/omniwitness"
	"golang.org/x/mod/sumdb/note"
)

// ---------------------------------------------------------------- C13

type feedCall struct {
	Kind    string // C fetch-checkpoint, G get-latest, P fetch-proof, U update
	Attempt int
	Failed  bool
	Ctx     bool // context already cancelled when the call was made
	// G
	Latest    []byte
	NotEx     bool
	Swallowed bool // the witness holds a checkpoint, yet the answer was "nothing, no error"
	// P
	From, To log.Checkpoint
	Proof    [][]byte
	// U
	Old uint64
	CP  []byte
	Out []byte
	Err error
	T   time.Time
}

type feedWorld struct {
	errFlavour   int           // what injected transient failures look like (0 plain, 1 wraps DeadlineExceeded, 2 wraps Canceled)
	wrapNotExist bool          // "no checkpoint yet" arrives as a wrapped os.ErrNotExist
	truth        func() []byte // what the real witness's store holds (fault-free side read); nil for the stub
	mu           sync.Mutex
	calls        []*feedCall
	attempt      int
	pattern      string // one letter per attempt: which step of that attempt fails (G, P, U), '-' none
	fired        int
	seamN        int
	cancelAt     int // seam number at which the context is cancelled (-1 never)
	cancel       context.CancelFunc
	cancelled    bool
	inner        feeder.Witness // stub or real
	failDelay    time.Duration  // how long an injected transient failure takes before it is reported
	compete      func()         // moves the real witness between the feeder's read and its update
	competed     bool
}

var errTransient = errors.New("injected transient failure")

// transientErr is what an injected transient failure returns: a plain error, or - as a peer behind its own per-request
// deadline would report it - an error that wraps a context error although the FEED's context is alive and well.
func (fw *feedWorld) transientErr() error {
	if fw.failDelay > 0 {
		time.Sleep(fw.failDelay) // the failing peer takes its time before it fails (a request that runs into a timeout)
	}
	switch fw.errFlavour {
	case 1:
		return fmt.Errorf("injected transient failure: request to peer: %w", context.DeadlineExceeded)
	case 2:
		return fmt.Errorf("injected transient failure: %w", context.Canceled)
	}
	return errTransient
}

func (fw *feedWorld) seam(kind string) (fail bool) {
	fw.mu.Lock()
	defer fw.mu.Unlock()
	fw.seamN++
	if fw.seamN == fw.cancelAt && fw.cancel != nil {
		fw.cancel()
		fw.cancelled = true
	}
	if fw.attempt-1 < len(fw.pattern) && fw.attempt >= 1 && string(fw.pattern[fw.attempt-1]) == kind {
		fw.fired++
		// consume: the letter applies to this attempt only
		fw.pattern = fw.pattern[:fw.attempt-1] + "-" + fw.pattern[fw.attempt:]
		return true
	}
	return false
}

func (fw *feedWorld) GetLatestCheckpoint(ctx context.Context, logID string) ([]byte, error) {
	fw.mu.Lock()
	fw.attempt++
	c := &feedCall{Kind: "G", Attempt: fw.attempt, Ctx: ctx.Err() != nil, T: time.Now()}
	fw.calls = append(fw.calls, c)
	fw.mu.Unlock()
	if fw.seam("G") {
		c.Failed = true
		return nil, fw.transientErr()
	}
	b, err := fw.inner.GetLatestCheckpoint(ctx, logID)
	if fw.wrapNotExist && errors.Is(err, os.ErrNotExist) {
		// "nothing yet" said the way os.ReadFile or a wrapping layer says it: still os.ErrNotExist for errors.Is
		err = &fs.PathError{Op: "open", Path: "checkpoint", Err: err}
	}
	c.Latest = b
	c.NotEx = errors.Is(err, os.ErrNotExist)
	c.Err = err
	if fw.truth != nil && err == nil && len(b) == 0 && len(fw.truth()) > 0 {
		c.Swallowed = true
	}
	return b, err
}

func (fw *feedWorld) Update(ctx context.Context, logID string, oldSize uint64, newCP []byte, proof [][]byte) ([]byte, error) {
	fw.mu.Lock()
	c := &feedCall{Kind: "U", Attempt: fw.attempt, Old: oldSize, CP: append([]byte{}, newCP...), Proof: proof, Ctx: ctx.Err() != nil, T: time.Now()}
	fw.calls = append(fw.calls, c)
	comp := fw.compete
	if comp != nil && !fw.competed {
		fw.competed = true
	} else {
		comp = nil
	}
	fw.mu.Unlock()
	if fw.seam("U") {
		c.Failed = true
		c.Err = fw.transientErr()
		return nil, c.Err
	}
	if comp != nil {
		comp()
	}
	out, err := fw.inner.Update(ctx, logID, oldSize, newCP, proof)
	c.Out, c.Err = out, err
	return out, err
}

// stubWitness accepts anything (like the suite's fake) but keeps a latest checkpoint.
type stubWitness struct {
	latest []byte
	wkey   *Key
}

func (s *stubWitness) GetLatestCheckpoint(ctx context.Context, logID string) ([]byte, error) {
	if s.latest == nil {
		return nil, os.ErrNotExist
	}
	return s.latest, nil
}
func (s *stubWitness) Update(ctx context.Context, logID string, oldSize uint64, newCP []byte, proof [][]byte) ([]byte, error) {
	pn, err := ParseNote(newCP)
	if err != nil {
		return nil, errors.New("stub: bad note")
	}
	s.latest = append(append([]byte{}, newCP...), []byte(s.wkey.SignCosigV1(pn.Text, uint64(time.Now().Unix())))...)
	return s.latest, nil
}

type c13Result struct {
	betweenAt      int    // run mode: number of calls made when the witness was moved between two cycles
	betweenState   Stored // ... and what the witness held right after that
	txLeft         bool   // a storage transaction was still open when the run ended
	neverReturned  bool   // FeedOnce had not returned 10 simulated minutes after its context ended
	runReturnDelay time.Duration
	calls          []*feedCall
	out            []byte
	err            error
	returned       bool
	fetched        []byte
	cpValid        bool
	fired          int
	finalReal      []byte
	simTime        time.Duration
	cancelled      bool
	callsAtCancel  int
	W              *World
	infra          string
}

func c13Exec(t *testing.T, p *Plan) (r *c13Result) {
	r = &c13Result{}
	defer func() {
		if x := recover(); x != nil {
			if strings.Contains(fmt.Sprint(x), "blocked goroutines remain") && p.Cfg.Extra["sqlite"] == 1 {
				// database/sql's watcher of a transaction that was neither committed nor rolled back is still there at the end
				r.txLeft = true
			} else {
				r.infra = fmt.Sprintf("bubble ended abnormally: %v", x)
			}
			dumpGoroutines()
		}
	}()
	synctest.Test(t, func(t *testing.T) {
		pinGlobalRand(p.Seed)
		w := NewWorld(p)
		r.W = w
		ld := w.Logs[0]
		ex := p.Cfg.Extra
		wsize, lsize := ex["wsize"], uint64(ex["lsize"]) // a negative lsize is a size >= 2^63
		wbranch, lbranch := int(ex["wbranch"]), int(ex["lbranch"])
		mk := func(branch int, size uint64) []byte {
			var h [32]byte
			if size > 1<<40 {
				h = sha256.Sum256([]byte(fmt.Sprintf("root of a tree of %d leaves", size))) // beyond what the reference tree computes: any root will do for a stub witness
			} else {
				h = ld.Branches[branch].Root(size)
			}
			text := CheckpointText(ld.Origin, size, h[:])
			cp := &SignedCP{Origin: ld.Origin, Branch: branch, Size: size, Root: h[:], Text: text}
			return MakeNote(text, w.Sign(ld.KeyIdx, cp))
		}
		fw := &feedWorld{pattern: p.Cfg.Notes["fail"], cancelAt: -1, errFlavour: int(p.Cfg.Extra["err_flavour"]), wrapNotExist: p.Cfg.Extra["wrap_notexist"] != 0}
		if p.Cfg.Notes["cancel"] == "" && p.Cfg.Notes["mode"] != "run" { // (the delay does not watch the context: not where stopping promptly is judged)
			fw.failDelay = time.Duration(p.Cfg.Extra["fail_delay_s"]) * time.Second
		}
		var closeBase func()
		defer func() {
			if closeBase != nil {
				closeBase()
			}
		}()
		var realW *witness.Witness
		if ex["real"] == 1 {
			known, _ := w.KnownLogs()
			signers, _ := w.Signers()
			var err error
			var base persistence.LogStatePersistence = inmemory.NewPersistence()
			if ex["sqlite"] == 1 {
				// file-backed SQLite with the production one-connection pool, opened through the fault-injecting driver
				q := p.Clone()
				q.Cfg.Store, q.Cfg.Seam = "sqlite", "driver"
				st, closeStore, err := openStoreFor(q)
				if err != nil {
					r.infra = err.Error()
					return
				}
				closeBase = closeStore
				base = st
				if k, ok := ex["execfail"]; ok {
					nexec := int64(0)
					mainDrvFault = func(op, arg string) error {
						if op != "Exec" {
							return nil
						}
						nexec++
						if nexec == k+2 { // the first Exec is Init's CREATE TABLE, the second one seeds the witness
							fw.mu.Lock()
							fw.fired++
							fw.mu.Unlock()
							return injected("busy")
						}
						return nil
					}
					defer func() { mainDrvFault = nil }()
				}
			}
			var smu sync.Mutex
			sfired := 0
			var sfail int64 = -1
			if v, ok := p.Cfg.Extra["sfail"]; ok {
				sfail = v
			}
			store := faultyP{in: base, mu: &smu, occ: map[string]int{}, fired: &sfired, fault: func(call, id string, occ int) error {
				if call == "R.GetLatest" && int64(occ) == sfail {
					fw.mu.Lock()
					fw.fired++
					fw.mu.Unlock()
					return errors.New("injected: database is locked")
				}
				return nil
			}}
			fw.truth = func() []byte {
				rd, err := base.ReadOps(ld.ID)
				if err != nil {
					return nil
				}
				b, _ := rd.GetLatest()
				return b
			}
			realW, err = witness.New(witness.Opts{Persistence: store, Signers: signers, KnownLogs: known})
			if err != nil {
				r.infra = err.Error()
				return
			}
			if wsize >= 0 {
				if _, err := realW.Update(context.Background(), ld.ID, 0, mk(wbranch, uint64(wsize)), nil); err != nil {
					r.infra = "seeding the real witness: " + err.Error()
					return
				}
			}
			fw.inner = omniwitness.VerifWitnessAdapter(realW)
			if ex["compete"] == 1 {
				fw.compete = func() {
					// another feeder gets in first: the witness moves forward on the same branch
					cur := fw.truth()
					if len(cur) == 0 {
						_, _ = realW.Update(context.Background(), ld.ID, 0, mk(wbranch, 1+uint64(ex["cdelta"])), nil)
						return
					}
					st := parseStored(cur)
					n := st.Size + 1 + uint64(ex["cdelta"])
					_, _ = realW.Update(context.Background(), ld.ID, st.Size, mk(wbranch, n), ld.Branches[wbranch].ConsistencyProof(st.Size, n))
				}
			}
		} else {
			sw := &stubWitness{wkey: w.WitKeys[0].Key}
			if wsize >= 0 {
				cp := mk(wbranch, c13WSize(ex))
				pn, _ := ParseNote(cp)
				sw.latest = append(cp, []byte(sw.wkey.SignCosigV1(pn.Text, uint64(time.Now().Unix())))...)
			}
			fw.inner = sw
		}
		// the log party
		switch p.Cfg.Notes["cp"] {
		case "badsig":
			h := ld.Branches[lbranch].Root(lsize)
			text := CheckpointText(ld.Origin, lsize, h[:])
			r.fetched = MakeNote(text, w.Stranger.SignEd25519(text))
		case "misframed":
			// the log's genuine signed checkpoint, served with bytes around it that the note format does not allow: as a whole
			// these bytes are not a signed note, whatever a tidied-up copy of them would be
			b := mk(lbranch, lsize)
			switch ex["frame"] {
			case 0:
				r.fetched = append(b, '\n')
			case 1:
				r.fetched = append(b, '\n', '\n')
			case 2:
				r.fetched = b[:len(b)-1]
			default:
				r.fetched = append(b[:len(b)-1], ' ', '\n')
			}
		case "wrongorigin":
			h := ld.Branches[lbranch].Root(lsize)
			text := CheckpointText(ld.Origin+"/x", lsize, h[:])
			cp := &SignedCP{Origin: ld.Origin + "/x", Branch: lbranch, Size: lsize, Root: h[:], Text: text}
			r.fetched = MakeNote(text, w.Sign(ld.KeyIdx, cp))
		default:
			r.fetched = mk(lbranch, lsize)
			r.cpValid = true
		}
		logV, _ := note.NewVerifier(ld.Key.VerifierString())
		ctx, cancel := context.WithCancel(context.Background())
		defer cancel()
		fw.cancel = cancel
		cancelSpec := p.Cfg.Notes["cancel"]
		sleepCancel := -1
		if strings.HasPrefix(cancelSpec, "seam:") {
			fmt.Sscanf(cancelSpec, "seam:%d", &fw.cancelAt)
		} else if strings.HasPrefix(cancelSpec, "sleep:") {
			fmt.Sscanf(cancelSpec, "sleep:%d", &sleepCancel)
		}
		opts := feeder.FeedOpts{
			LogID: ld.ID, LogOrigin: ld.Origin, LogSigVerifier: logV, Witness: fw,
			FetchCheckpoint: func(ctx context.Context) ([]byte, error) {
				fw.mu.Lock()
				fw.calls = append(fw.calls, &feedCall{Kind: "C", T: time.Now()})
				fw.mu.Unlock()
				if p.Cfg.Notes["cp"] == "fetchfail" {
					return nil, errTransient
				}
				return r.fetched, nil
			},
			FetchProof: func(ctx context.Context, from, to log.Checkpoint) ([][]byte, error) {
				fw.mu.Lock()
				c := &feedCall{Kind: "P", Attempt: fw.attempt, From: from, To: to, Ctx: ctx.Err() != nil, T: time.Now()}
				fw.calls = append(fw.calls, c)
				fw.mu.Unlock()
				if fw.seam("P") {
					c.Failed = true
					return nil, fw.transientErr()
				}
				var pr [][]byte
				if from.Size > 0 && from.Size < to.Size && to.Size <= 1<<62 {
					pr = ld.Branches[lbranch].ConsistencyProof(from.Size, to.Size)
				} else {
					pr = [][]byte{}
				}
				c.Proof = pr
				return pr, nil
			},
		}
		if p.Cfg.Notes["cp"] == "wrongorigin" && ex["primed"] != 0 {
			// the same process has just fed those very bytes for the log they belong to (a sibling on the same key, as the shards
			// of one log are): whatever it remembers from that must not make them pass for this log
			sib := &stubWitness{wkey: w.WitKeys[0].Key}
			sopts := opts
			sopts.LogOrigin, sopts.LogID, sopts.Witness = ld.Origin+"/x", LogID(ld.Origin+"/x"), sib
			sopts.FetchCheckpoint = func(context.Context) ([]byte, error) { return r.fetched, nil }
			sopts.FetchProof = func(context.Context, log.Checkpoint, log.Checkpoint) ([][]byte, error) { return [][]byte{}, nil }
			pctx, pcancel := context.WithTimeout(context.Background(), 30*time.Second)
			_, perr := feeder.FeedOnce(pctx, sopts)
			pcancel()
			if perr != nil {
				r.infra = "priming feed of the sibling log: " + perr.Error()
				return
			}
		}
		start := time.Now()
		done := make(chan struct{})
		if p.Cfg.Notes["mode"] == "run" {
			// the polling loop: it must stop when its context ends, also in the middle of a failing cycle
			interval := time.Duration(ex["interval_s"]) * time.Second
			if ex["rekor"] == 1 {
				// the Rekor feeder's own loop and its own proof source, against a Rekor stub on the simulated network: what IT
				// asks the witness for is judged like any other feeder's
				st := &tileStub{tree: ld.Branches[lbranch], origin: ld.Origin, key: ld.Key, world: w, keyIdx: ld.KeyIdx, kind: "rekor", size: lsize}
				sn := NewSimNet()
				sn.Hosts["rekor.example"] = &rekorStub{st: st, treeID: "4242"}
				lc, err := config.NewLog(ld.Origin, ld.Key.VerifierString(), "http://rekor.example?treeID=4242")
				if err != nil {
					r.infra = "rekor log configuration: " + err.Error()
					return
				}
				hc := &http.Client{Transport: sn, Timeout: 10 * time.Second}
				go func() {
					defer close(done)
					r.err = rekor.FeedLog(ctx, lc, fw, hc, interval)
				}()
			} else {
				go func() {
					defer close(done)
					r.err = feeder.Run(ctx, interval, opts)
				}()
			}
			cancelAfter := time.Duration(ex["cancel_after_ms"]) * time.Millisecond
			if ex["between_cycles"] == 1 && fw.compete != nil {
				// between two poll cycles somebody else (the bastion endpoint, another feeder) moves the witness on: the next
				// cycle starts from what the witness reports THEN, whatever the feeder learnt in the cycle before
				fw.mu.Lock()
				comp := fw.compete
				fw.competed = true // not inside an attempt
				fw.mu.Unlock()
				time.Sleep(interval / 2)
				synctest.Wait()
				comp()
				fw.mu.Lock()
				r.betweenAt = len(fw.calls)
				fw.mu.Unlock()
				r.betweenState = parseStored(fw.truth())
				cancelAfter -= interval / 2
			}
			time.Sleep(cancelAfter)
			synctest.Wait()
			fw.mu.Lock()
			fw.cancelled = true
			r.callsAtCancel = len(fw.calls)
			fw.mu.Unlock()
			cancel()
			cancelT := time.Now()
			for i := 0; i < 400 && !r.returned; i++ {
				synctest.Wait()
				select {
				case <-done:
					r.returned = true
				default:
					time.Sleep(500 * time.Millisecond)
				}
			}
			r.runReturnDelay = time.Since(cancelT)
			r.simTime = time.Since(start)
			fw.mu.Lock()
			r.calls, r.fired, r.cancelled = fw.calls, fw.fired, true
			fw.mu.Unlock()
			if !r.returned {
				// cannot leave the bubble with Run still going: advance until its detached cycle times out
				for i := 0; i < 1000 && !r.returned; i++ {
					time.Sleep(10 * time.Second)
					synctest.Wait()
					select {
					case <-done:
						r.returned = true
						r.runReturnDelay = time.Since(cancelT)
					default:
					}
				}
				r.returned = false
			}
			return
		}
		go func() {
			defer close(done)
			r.out, r.err = feeder.FeedOnce(ctx, opts)
		}()
		sleeps := 0
		for i := 0; i < 4000; i++ {
			synctest.Wait()
			select {
			case <-done:
				r.returned = true
			default:
			}
			if r.returned {
				break
			}
			// the feeder is asleep in its backoff
			sleeps++
			if sleeps == sleepCancel && !fw.cancelled {
				fw.mu.Lock()
				fw.cancelled = true
				r.callsAtCancel = len(fw.calls)
				fw.mu.Unlock()
				cancel()
				continue
			}
			time.Sleep(time.Second)
		}
		if !r.returned {
			cancel()
			for i := 0; i < 600 && !r.returned; i++ {
				synctest.Wait()
				select {
				case <-done:
					r.returned = true
				default:
					time.Sleep(time.Second)
				}
			}
			if !r.returned {
				// FeedOnce outlives its context for good (it waits for something that never comes): note it, then pull the store
				// away from under it so that the bubble can be left
				r.neverReturned = true
				if closeBase != nil {
					closeBase()
					closeBase = nil
				}
			}
			<-done
		}
		r.simTime = time.Since(start)
		fw.mu.Lock()
		r.calls, r.fired, r.cancelled = fw.calls, fw.fired, fw.cancelled
		if fw.cancelAt > 0 && fw.cancelled && r.callsAtCancel == 0 {
			// calls made up to and including the seam that cancelled
			n := 0
			for i, c := range fw.calls {
				if c.Kind != "C" {
					n++
				}
				if n == fw.cancelAt {
					r.callsAtCancel = i + 1
					break
				}
			}
		}
		fw.mu.Unlock()
		if realW != nil {
			r.finalReal = fw.truth()
		}
	})
	return r
}

func oracleC13(p *Plan, r *c13Result) []Violation {
	var out []Violation
	add := func(cls, sig, d string) {
		out = append(out, Violation{Class: cls, Sig: cls + "/" + sig, Detail: d})
	}
	w := r.W
	ld := w.Logs[0]
	if p.Cfg.Notes["mode"] == "run" {
		if r.betweenAt > 0 && r.betweenState.Has {
			for _, c := range r.calls[min(r.betweenAt, len(r.calls)):] {
				if c.Kind != "U" {
					continue
				}
				sub := parseStored(c.CP)
				switch {
				case !sub.Bad && r.betweenState.Size > sub.Size:
					add("submitted_while_witness_ahead", "later_cycle", fmt.Sprintf("between two poll cycles the witness moved to size %d; in a later cycle the feeder still submitted the log's size %d (old size %d; calls: %s)", r.betweenState.Size, sub.Size, c.Old, callString(r.calls)))
				case c.Old != r.betweenState.Size:
					add("wrong_old_size", "later_cycle", fmt.Sprintf("between two poll cycles the witness moved to size %d; in a later cycle the feeder passed old size %d (calls: %s)", r.betweenState.Size, c.Old, callString(r.calls)))
				}
				break
			}
		}
		if p.Cfg.Extra["rekor"] == 1 {
			// every step the Rekor feeder asks for is justified: the proof it passes is the log's consistency proof between the
			// old size it names and the checkpoint it submits (judged only where the witness refused: a proof it accepted was valid)
			for _, c := range r.calls {
				if c.Kind != "U" || c.Failed || c.Err == nil {
					continue
				}
				sub := parseStored(c.CP)
				if sub.Bad || c.Old == 0 || c.Old >= sub.Size {
					continue
				}
				want := ld.Branches[int(p.Cfg.Extra["lbranch"])].ConsistencyProof(c.Old, sub.Size)
				same := len(want) == len(c.Proof)
				for i := 0; same && i < len(want); i++ {
					same = string(want[i]) == string(c.Proof[i])
				}
				if !same {
					add("wrong_proof", "rekor_feeder", fmt.Sprintf("the Rekor feeder asked the witness to go from size %d to %d with a proof of %d hashes that is not the log's consistency proof between those sizes (%d hashes); the witness refused: %v (calls: %s)", c.Old, sub.Size, len(c.Proof), len(want), c.Err, callString(r.calls)))
					break
				}
			}
		}
		if !r.returned || r.runReturnDelay > 3*time.Second {
			add("ran_after_cancel", "run_did_not_return", fmt.Sprintf("feeder.Run was still running %v (simulated) after its context ended (returned=%v; calls: %s)", r.runReturnDelay, r.returned, callString(r.calls)))
		}
		for _, c := range r.calls[min(r.callsAtCancel, len(r.calls)):] {
			if c.Kind == "G" {
				add("ran_after_cancel", "new_attempt", fmt.Sprintf("feeder.Run started a new attempt after its context had ended (%d calls before, %d in total)", r.callsAtCancel, len(r.calls)))
				break
			}
		}
		return out
	}
	if !r.returned {
		add("ran_after_cancel", "never_returned", "FeedOnce did not return within 4000 simulated seconds of scheduler steps")
		return out
	}
	for _, c := range r.calls {
		if c.Kind == "G" && c.Swallowed {
			add("wrong_old_size", "witness_reported_nothing", fmt.Sprintf("attempt %d: the witness holds a checkpoint, its store failed to read it, and the feeder was told 'no checkpoint, no error' (so it goes on as if this were first use)", c.Attempt))
			return out
		}
	}
	var sub Stored
	if r.cpValid {
		sub = parseStored(r.fetched)
	}
	byAttempt := map[int][]*feedCall{}
	maxAttempt := 0
	for _, c := range r.calls {
		if c.Kind == "C" {
			continue
		}
		byAttempt[c.Attempt] = append(byAttempt[c.Attempt], c)
		if c.Attempt > maxAttempt {
			maxAttempt = c.Attempt
		}
	}
	if !r.cpValid {
		if len(byAttempt) > 0 {
			add("unverified_checkpoint_submitted", "witness_contacted", fmt.Sprintf("the fetched checkpoint does not verify under the log key and origin (%s), yet the witness was contacted %d times", p.Cfg.Notes["cp"], len(r.calls)-1))
		}
		if r.err == nil {
			add("wrong_return", "success_on_unverifiable", "FeedOnce reported success for a checkpoint that does not verify")
		}
		return out
	}
	var lastU *feedCall
	for a := 1; a <= maxAttempt; a++ {
		var g, pc, u *feedCall
		for _, c := range byAttempt[a] {
			switch c.Kind {
			case "G":
				g = c
			case "P":
				pc = c
			case "U":
				u = c
			}
		}
		if g == nil {
			add("wrong_old_size", "update_without_read", fmt.Sprintf("attempt %d made calls without asking the witness for its latest checkpoint first", a))
			continue
		}
		var lat Stored
		if !g.Failed && len(g.Latest) > 0 {
			lat = parseStored(g.Latest)
		}
		if u == nil {
			continue
		}
		lastU = u
		if g.Failed {
			add("wrong_old_size", "update_after_failed_read", fmt.Sprintf("attempt %d submitted although its get-latest failed", a))
			continue
		}
		if string(u.CP) != string(r.fetched) {
			add("unverified_checkpoint_submitted", "modified", fmt.Sprintf("attempt %d submitted bytes that are not the fetched checkpoint", a))
		}
		if ok, why := w.authentic(ld, u.CP); !ok {
			add("unverified_checkpoint_submitted", "not_authentic", fmt.Sprintf("attempt %d submitted a checkpoint that %s", a, why))
		}
		wantOld := uint64(0)
		if lat.Has {
			wantOld = lat.Size
		}
		if u.Old != wantOld {
			add("wrong_old_size", "mismatch", fmt.Sprintf("attempt %d: the witness reported size %d (has=%v) in this attempt, the feeder passed old size %d", a, wantOld, lat.Has, u.Old))
		}
		if lat.Has && lat.Size > sub.Size {
			add("submitted_while_witness_ahead", "update", fmt.Sprintf("attempt %d: witness at %d is ahead of the log's %d, yet an update was submitted", a, lat.Size, sub.Size))
		}
		if pc == nil {
			refresh := lat.Has && lat.Size == sub.Size && string(lat.Root) == string(sub.Root)
			if !refresh || len(u.Proof) != 0 {
				add("proof_for_wrong_pair", "no_proof_requested", fmt.Sprintf("attempt %d submitted %d -> %d with %d proof hashes without requesting a proof", a, wantOld, sub.Size, len(u.Proof)))
			}
		} else {
			if pc.Failed {
				add("proof_for_wrong_pair", "update_after_failed_proof", fmt.Sprintf("attempt %d submitted although fetching the proof failed", a))
				continue
			}
			if pc.From.Size != wantOld || (lat.Has && string(pc.From.Hash) != string(lat.Root)) || pc.To.Size != sub.Size || string(pc.To.Hash) != string(sub.Root) {
				add("proof_for_wrong_pair", "wrong_pair", fmt.Sprintf("attempt %d requested a proof %d/%x -> %d/%x, want %d/%x -> %d/%x", a, pc.From.Size, pc.From.Hash, pc.To.Size, pc.To.Hash, wantOld, lat.Root, sub.Size, sub.Root))
			}
			if len(u.Proof) != len(pc.Proof) {
				add("proof_for_wrong_pair", "proof_changed", fmt.Sprintf("attempt %d passed %d proof hashes, the log returned %d", a, len(u.Proof), len(pc.Proof)))
			} else {
				for i := range u.Proof {
					if string(u.Proof[i]) != string(pc.Proof[i]) {
						add("proof_for_wrong_pair", "proof_changed", fmt.Sprintf("attempt %d changed proof hash %d", a, i))
						break
					}
				}
			}
		}
	}
	ex := p.Cfg.Extra
	cancelled := r.cancelled
	// cancellation: no new attempt after the context ended
	if cancelled && r.callsAtCancel > 0 {
		for _, c := range r.calls[r.callsAtCancel:] {
			if c.Kind == "G" {
				add("ran_after_cancel", "new_attempt", fmt.Sprintf("a new attempt (get-latest) was started after the context had ended (%d calls before, %d in total)", r.callsAtCancel, len(r.calls)))
				break
			}
		}
		if strings.HasPrefix(p.Cfg.Notes["cancel"], "sleep:") && len(r.calls) > r.callsAtCancel {
			add("ran_after_cancel", "call_after_cancel_in_backoff", "the context ended while the feeder was backing off, yet it made further calls")
		}
	}
	if r.txLeft {
		add("no_retry_success", "transaction_left_open", fmt.Sprintf("when the run ended a storage transaction opened for the feeder's update was still open (%d transient failures injected; calls: %s): on the one-connection store nothing can be read or written any more", r.fired, callString(r.calls)))
		return out
	}
	if r.neverReturned {
		add("no_retry_success", "never_returns", fmt.Sprintf("FeedOnce neither finished nor stopped when its context ended (%d transient failures injected; calls: %s): it waits for something that never comes", r.fired, callString(r.calls)))
		return out
	}
	if cancelled || p.Cfg.Notes["cp"] == "fetchfail" {
		if p.Cfg.Notes["cp"] == "fetchfail" && (r.err == nil || len(byAttempt) > 0) {
			add("wrong_return", "fetch_failed", "fetching the checkpoint failed, yet FeedOnce went on")
		}
		return out
	}
	// outcome once the transient failures have cleared
	ahead := ex["wsize"] >= 0 && c13WSize(ex) > uint64(ex["lsize"]) && ex["compete"] == 0
	consistent := ex["wsize"] < 0 || ex["real"] == 0 || PrefixCompatible(ld.Branches[ex["wbranch"]], ld.Branches[ex["lbranch"]], uint64(ex["wsize"]))
	if ex["wsize"] == 0 && ex["real"] == 1 && ex["lsize"] > 0 {
		consistent = false // a real witness at size 0 refuses growth (finding F2, C08's business)
	}
	switch {
	case ahead:
		if r.err == nil {
			add("submitted_while_witness_ahead", "success", "the witness is ahead of the log, yet FeedOnce reported success")
		}
		if r.simTime > time.Minute {
			add("no_retry_success", "retried_when_ahead", fmt.Sprintf("the witness is ahead (a permanent condition) but FeedOnce kept retrying for %v", r.simTime))
		}
	case consistent && ex["compete"] == 0:
		if r.err != nil {
			add("no_retry_success", "error", fmt.Sprintf("after %d transient failures cleared, FeedOnce still failed: %v (calls: %s)", r.fired, r.err, callString(r.calls)))
		} else {
			if lastU == nil || string(r.out) != string(lastU.Out) {
				add("wrong_return", "bytes", "FeedOnce succeeded but did not return the bytes the witness returned")
			}
			if maxAttempt != r.fired+1 {
				add("no_retry_success", "attempts", fmt.Sprintf("%d transient failures were injected, success is expected on attempt %d, took %d", r.fired, r.fired+1, maxAttempt))
			}
			if ex["real"] == 1 && string(r.finalReal) != string(r.out) {
				add("wrong_return", "state", "FeedOnce succeeded but the real witness does not hold the returned checkpoint")
			}
		}
	case !consistent:
		if r.err == nil && ex["real"] == 1 {
			add("wrong_return", "success_on_fork", "the log is on a fork of what the real witness holds, yet FeedOnce reported success")
		}
	}
	return out
}

// c13WSize is the size the (stub) witness holds: Extra["wsize"], plus 2^63 if Extra["wbig"] is set.
func c13WSize(ex map[string]int64) uint64 {
	return uint64(ex["wsize"]) | uint64(ex["wbig"])<<63
}

func callString(cs []*feedCall) string {
	var sb strings.Builder
	for _, c := range cs {
		sb.WriteString(c.Kind)
		if c.Failed {
			sb.WriteString("!")
		}
	}
	return sb.String()
}

func c13Patterns(maxLen int) []string {
	out := []string{""}
	frontier := []string{""}
	for l := 1; l <= maxLen; l++ {
		var next []string
		for _, f := range frontier {
			for _, c := range "GPU" {
				next = append(next, f+string(c))
			}
		}
		out = append(out, next...)
		frontier = next
	}
	return out
}

func init() {
	register(&Scenario{
		Prop:  "C13",
		Level: "fault_enumeration",
		Rule:  "feeder.FeedOnce on the fake clock against a recording witness (scripted stub, or the real witness through the real witnessAdapter, optionally with a competing writer moving it between the feeder's read and its update) and a harness log party (honest or forked, first use, equality, witness ahead, unverifiable, misframed - genuine but with a surplus or missing final newline - or unfetchable checkpoint); per seeded shape EVERY distribution of 0..4 transient failures over get-latest / fetch-proof / update (121 patterns) is executed, plus context cancellation at every call and during every backoff sleep; oracle on the recorded calls per attempt (old size, proof pair, proof passed on unchanged, nothing when ahead, only verifiable checkpoints), on the result (success on the attempt after the last failure, returns the witness's bytes, real witness holds them) and on cancellation (no new attempt); per real-witness shape also one polling run of the real Rekor feeder (internal/feeder/rekor.FeedLog, its own proof source) against a Rekor stub on the simulated network while a competing writer moves the witness between its read and its update: a proof the witness refuses must be the log's consistency proof between the old size named and the size submitted. evaluations = executions; non-trivial = at least one injected failure or cancellation fired; distinct = distinct (shape, pattern or cancel point, call string) tuples",
		Gen: func(r *Rng, tier string, n uint64) *Plan {
			p := &Plan{Scenario: "feed"}
			p.Cfg = Config{Store: "mem", Dense: 1024, WitKeys: []string{"ed:0", "cosig:0"},
				Logs: []LogCfg{{Origin: "sim.example/feedlog", Key: 0, Forks: []ForkCfg{{Parent: 0, At: uint64(r.IntN(6))}}}}}
			ex := map[string]int64{"real": int64(r.IntN(2)), "wbranch": 0, "lbranch": 0, "compete": 0, "cdelta": int64(r.IntN(3))}
			notes := map[string]string{}
			switch r.Weighted(15, 40, 10, 10, 15, 4, 3, 3) {
			case 0: // first use
				ex["wsize"], ex["lsize"] = -1, int64(r.Range(1, 300))
			case 1: // growth
				ex["wsize"] = int64(r.Range(1, 300))
				ex["lsize"] = ex["wsize"] + int64(r.Range(1, 300))
			case 2: // equality
				ex["wsize"] = int64(r.Range(1, 300))
				ex["lsize"] = ex["wsize"]
			case 3: // witness ahead
				ex["lsize"] = int64(r.Range(1, 300))
				ex["wsize"] = ex["lsize"] + int64(r.Range(1, 50))
			case 4: // forked log
				ex["wsize"] = int64(r.Range(7, 100))
				ex["lsize"] = ex["wsize"] + int64(r.Range(0, 40))
				ex["lbranch"] = 1
			case 5:
				notes["cp"] = Pick(r, "badsig", "misframed")
				ex["frame"] = int64(r.IntN(4))
				ex["wsize"], ex["lsize"] = int64(r.Range(1, 20)), int64(r.Range(21, 40))
			case 6:
				notes["cp"] = "wrongorigin"
				ex["primed"] = int64(r.IntN(2))
				ex["wsize"], ex["lsize"] = int64(r.Range(1, 20)), int64(r.Range(21, 40))
			default:
				notes["cp"] = "fetchfail"
				ex["wsize"], ex["lsize"] = int64(r.Range(1, 20)), int64(r.Range(21, 40))
			}
			if r.Chance(0.06) {
				// sizes 2^63 or more apart (a log can sign any size): comparisons must not go through signed arithmetic
				ex["real"], ex["lbranch"] = 0, 0
				delete(notes, "cp")
				switch r.IntN(3) {
				case 0: // the log is far ahead: one justified step
					ex["wsize"], ex["lsize"] = int64(r.Range(1, 300)), int64(uint64(1)<<63+uint64(r.Range(0, 300)))
				case 1: // the witness is far ahead: nothing to submit
					ex["wsize"], ex["wbig"], ex["lsize"] = int64(r.Range(0, 300)), 1, int64(r.Range(1, 300))
				default: // both beyond 2^63
					ex["wsize"], ex["wbig"] = int64(r.Range(0, 300)), 1
					ex["lsize"] = int64(uint64(1)<<63 + uint64(ex["wsize"]) + uint64(r.Range(1, 300)))
				}
			}
			if ex["real"] == 1 && ex["wsize"] >= 0 && ex["wbig"] == 0 && r.Chance(0.25) {
				// the real witness on SQLite; one write of the feeder's update fails inside the driver (the database is busy)
				ex["sqlite"], ex["execfail"] = 1, 1
			}
			if ex["real"] == 1 && ex["wsize"] < 0 && r.Chance(0.4) {
				ex["sqlite"] = 1 // first use against the real witness on SQLite: "nothing stored yet" as that store words it
			}
			if ex["real"] == 1 && ex["wsize"] >= 0 && r.Chance(0.3) && notes["cp"] == "" {
				ex["compete"] = 1
			}
			ex["enum"] = 1
			ex["fail_delay_s"] = int64(Pick(r, 0, 0, 0, 1, 4, 9)) // injected failures may take seconds to show (a peer's request timing out)
			ex["err_flavour"] = int64(r.Weighted(60, 25, 15))
			if r.Chance(0.3) {
				ex["wrap_notexist"] = 1
			}
			p.Cfg.Extra, p.Cfg.Notes = ex, notes
			return p
		},
		Run: func(t *testing.T, p *Plan) *Outcome {
			out := &Outcome{Stats: newStats()}
			shape := fmt.Sprintf("w%d/l%d/b%d/real%d/comp%d/%s", p.Cfg.Extra["wsize"], p.Cfg.Extra["lsize"], p.Cfg.Extra["lbranch"], p.Cfg.Extra["real"], p.Cfg.Extra["compete"], p.Cfg.Notes["cp"])
			shapeClass := fmt.Sprintf("%v/%v/b%d/real%d/comp%d/%s", p.Cfg.Extra["wsize"] < 0, p.Cfg.Extra["wsize"]-p.Cfg.Extra["lsize"] > 0, p.Cfg.Extra["lbranch"], p.Cfg.Extra["real"], p.Cfg.Extra["compete"], p.Cfg.Notes["cp"])
			one := func(q *Plan) (*c13Result, []Violation) {
				r := c13Exec(t, q)
				out.Evals++
				if r.infra != "" {
					out.Infra = append(out.Infra, r.infra)
					return r, nil
				}
				out.Stats.SimNanos += int64(r.simTime)
				out.Stats.Fired["transient_failure"] += r.fired
				if r.cancelled {
					out.Stats.Fired["context_cancel"]++
				}
				if r.fired > 0 || r.cancelled {
					out.Distinct = append(out.Distinct, shapeClass+"/"+q.Cfg.Notes["fail"]+"/"+q.Cfg.Notes["cancel"]+"/"+callString(r.calls))
				}
				if r.simTime > 10*time.Minute {
					out.Stats.Probes["backoff_exhausted"]++
				}
				return r, oracleC13(q, r)
			}
			if p.Cfg.Extra["enum"] == 0 {
				r, v := one(p)
				out.Viol = v
				out.Events = []string{shape, callString(r.calls)}
				return out
			}
			for _, pat := range c13Patterns(4) {
				q := p.Clone()
				q.Cfg.Extra["enum"] = 0
				q.Cfg.Notes["fail"] = pat
				r, v := one(q)
				if len(out.Infra) > 0 {
					return out
				}
				if len(v) > 0 {
					out.Viol, out.FailPlan = v, q
					out.Events = []string{shape, callString(r.calls)}
					return out
				}
				if pat == "" {
					out.Sample = map[string]any{"shape": shape, "calls_fault_free": callString(r.calls), "patterns": 121}
				}
			}
			// cancellation at every call of a failure-free and of a failing run, and in every backoff sleep
			for _, pat := range []string{"", "GPU", "UU"} {
				for s := 1; s <= 8; s++ {
					for _, kind := range []string{"seam", "sleep"} {
						q := p.Clone()
						q.Cfg.Extra["enum"] = 0
						q.Cfg.Notes["fail"] = pat
						q.Cfg.Notes["cancel"] = fmt.Sprintf("%s:%d", kind, s)
						r, v := one(q)
						if len(out.Infra) > 0 {
							return out
						}
						if len(v) > 0 {
							out.Viol, out.FailPlan = v, q
							out.Events = []string{shape, callString(r.calls)}
							return out
						}
					}
				}
			}
			if p.Cfg.Extra["real"] == 1 {
				// the witness's own store fails to read (under the real adapter) in attempt 1, 2 or 3
				for sf := int64(0); sf < 3; sf++ {
					q := p.Clone()
					q.Cfg.Extra["enum"] = 0
					q.Cfg.Extra["sfail"] = sf
					r, v := one(q)
					if len(out.Infra) > 0 {
						return out
					}
					if len(v) > 0 {
						out.Viol, out.FailPlan = v, q
						out.Events = []string{shape, callString(r.calls)}
						return out
					}
				}
			}
			// the polling loop under cancellation: mid-cycle (witness failing) and between cycles
			for _, rc := range [][3]int64{{60, 700, 1}, {60, 7000, 1}, {10, 25000, 1}, {60, 90000, 0}, {30, 31000, 0}, {30, 100000, 2}, {30, 100000, 3}} {
				q := p.Clone()
				q.Cfg.Extra["enum"] = 0
				q.Cfg.Notes["mode"] = "run"
				if rc[2] == 2 {
					if q.Cfg.Extra["compete"] != 1 || q.Cfg.Extra["real"] != 1 {
						continue
					}
					q.Cfg.Extra["between_cycles"] = 1
				}
				if rc[2] == 3 {
					// the Rekor feeder against the real witness, which another feeder moves on between this feeder's read and its
					// update: the retry starts from the witness's new size and needs a proof from THERE
					if q.Cfg.Extra["real"] != 1 {
						continue
					}
					q.Cfg.Extra["rekor"], q.Cfg.Extra["compete"], q.Cfg.Notes["cp"] = 1, 1, ""
					q.Cfg.Extra["wbranch"], q.Cfg.Extra["lbranch"] = 0, 0
					q.Cfg.Extra["wsize"] = 1 + int64(p.Seed%7)
					q.Cfg.Extra["lsize"] = q.Cfg.Extra["wsize"] + q.Cfg.Extra["cdelta"] + 2 + int64(p.Seed/7%9)
					delete(q.Cfg.Extra, "sfail")
					delete(q.Cfg.Extra, "execfail")
				}
				q.Cfg.Extra["interval_s"], q.Cfg.Extra["cancel_after_ms"] = rc[0], rc[1]
				q.Cfg.Notes["fail"] = ""
				if rc[2] == 1 {
					q.Cfg.Notes["fail"] = strings.Repeat("U", 60)
				}
				r, v := one(q)
				if len(out.Infra) > 0 {
					return out
				}
				if len(v) > 0 {
					out.Viol, out.FailPlan = v, q
					out.Events = []string{shape, "run", callString(r.calls)}
					return out
				}
			}
			out.Stats.Probes["shapes_fully_enumerated"]++
			return out
		},
		Components: map[string]string{
			"internal/feeder (FeedOnce, submitToWitness, backoff)":            "real",
			"omniwitness.witnessAdapter + internal/witness + in-memory store": "real (in the 'real witness' half of the shapes)",
			"witness (other half)":                    "recording stub that accepts anything, as the suite's fake does, but remembers its latest checkpoint",
			"log party (FetchCheckpoint, FetchProof)": "harness stub over the reference tree; in one polling-mode run per real-witness shape the real internal/feeder/rekor FeedLog against a Rekor stub on simnet",
			"clock, backoff timers":                   "synctest fake clock; backoff jitter from math/rand pinned by randautoseed=0",
		},
		Assumptions: []string{"an injected failure hits one step of one attempt and is transient", "cancellation is judged leniently: calls of the attempt in progress may complete, a new attempt must not start; during a backoff sleep no call at all may follow"},
	})
}
