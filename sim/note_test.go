package verifsim

// Minimal signed-note implementation written from the c2sp.org/signed-note and
// c2sp.org/tlog-cosignature specifications, on crypto/ed25519 directly. It is
// the harness's independent way to make and to check notes; x/mod/sumdb/note
// and transparency-dev/formats are the code under test (dependencies of it).

import (
	"bytes"
	"crypto/ed25519"
	"crypto/sha256"
	"encoding/base64"
	"encoding/binary"
	"errors"
	"fmt"
	"strings"
)

const (
	algEd25519 = 1
	algCosigV1 = 4
)

type Key struct {
	Name string
	Seed []byte
	Priv ed25519.PrivateKey
	Pub  ed25519.PublicKey
}

func NewKey(name string, seed [32]byte) *Key {
	priv := ed25519.NewKeyFromSeed(seed[:])
	return &Key{Name: name, Seed: append([]byte{}, seed[:]...), Priv: priv, Pub: priv.Public().(ed25519.PublicKey)}
}

func (k *Key) KeyHash(alg byte) uint32 {
	h := sha256.New()
	h.Write([]byte(k.Name))
	h.Write([]byte("\n"))
	h.Write([]byte{alg})
	h.Write(k.Pub)
	return binary.BigEndian.Uint32(h.Sum(nil))
}

// SignerString is the "PRIVATE+KEY+..." encoding x/mod's note.NewSigner takes.
func (k *Key) SignerString() string {
	return fmt.Sprintf("PRIVATE+KEY+%s+%08x+%s", k.Name, k.KeyHash(algEd25519),
		base64.StdEncoding.EncodeToString(append([]byte{algEd25519}, k.Seed...)))
}

// VerifierString is the "name+hash+key" encoding of the public key.
func (k *Key) VerifierString() string {
	return fmt.Sprintf("%s+%08x+%s", k.Name, k.KeyHash(algEd25519),
		base64.StdEncoding.EncodeToString(append([]byte{algEd25519}, k.Pub...)))
}

func sigLine(name string, hash uint32, sig []byte) string {
	b := binary.BigEndian.AppendUint32(nil, hash)
	b = append(b, sig...)
	return "— " + name + " " + base64.StdEncoding.EncodeToString(b) + "\n"
}

// SignEd25519 returns a plain Ed25519 signature line over text.
func (k *Key) SignEd25519(text string) string {
	return sigLine(k.Name, k.KeyHash(algEd25519), ed25519.Sign(k.Priv, []byte(text)))
}

func cosigMessage(t uint64, text string) []byte {
	return []byte(fmt.Sprintf("cosignature/v1\ntime %d\n%s", t, text))
}

// SignCosigV1 returns a cosignature/v1 line with timestamp t.
func (k *Key) SignCosigV1(text string, t uint64) string {
	sig := binary.BigEndian.AppendUint64(nil, t)
	sig = append(sig, ed25519.Sign(k.Priv, cosigMessage(t, text))...)
	return sigLine(k.Name, k.KeyHash(algCosigV1), sig)
}

// MakeNote joins a text (which must end in a newline) and signature lines.
func MakeNote(text string, lines ...string) []byte {
	return []byte(text + "\n" + strings.Join(lines, ""))
}

type SigLine struct {
	Name string
	Hash uint32
	Sig  []byte // after the 4 hash bytes
	Line string // the whole line including trailing newline
}

type ParsedNote struct {
	Text string
	Sigs []SigLine
}

var errNoteFormat = errors.New("harness note parser: malformed note")

// ParseNote splits a note into text and signature lines. It is deliberately
// lenient about counts and sizes: it is used on bytes produced by the witness.
func ParseNote(b []byte) (*ParsedNote, error) {
	i := bytes.LastIndex(b, []byte("\n\n"))
	if i < 0 {
		return nil, errNoteFormat
	}
	text, sigs := string(b[:i+1]), string(b[i+2:])
	if len(sigs) == 0 || !strings.HasSuffix(sigs, "\n") {
		return nil, errNoteFormat
	}
	pn := &ParsedNote{Text: text}
	for _, l := range strings.SplitAfter(sigs, "\n") {
		if l == "" {
			continue
		}
		body, ok := strings.CutPrefix(l, "— ")
		if !ok {
			return nil, errNoteFormat
		}
		body = strings.TrimSuffix(body, "\n")
		name, b64, ok := strings.Cut(body, " ")
		if !ok {
			return nil, errNoteFormat
		}
		raw, err := base64.StdEncoding.DecodeString(b64)
		if err != nil || len(raw) < 5 {
			return nil, errNoteFormat
		}
		pn.Sigs = append(pn.Sigs, SigLine{Name: name, Hash: binary.BigEndian.Uint32(raw), Sig: raw[4:], Line: l})
	}
	if len(pn.Sigs) > maxNoteSigs {
		return nil, errNoteFormat // the format's limit on signature lines
	}
	return pn, nil
}

// VerifyEd25519 reports whether s is k's plain Ed25519 signature over text.
func (k *Key) VerifyEd25519(text string, s SigLine) bool {
	return s.Name == k.Name && s.Hash == k.KeyHash(algEd25519) && len(s.Sig) == ed25519.SignatureSize &&
		ed25519.Verify(k.Pub, []byte(text), s.Sig)
}

// VerifyCosigV1 reports whether s is k's cosignature/v1 over text, and its time.
func (k *Key) VerifyCosigV1(text string, s SigLine) (bool, uint64) {
	if s.Name != k.Name || s.Hash != k.KeyHash(algCosigV1) || len(s.Sig) != 8+ed25519.SignatureSize {
		return false, 0
	}
	t := binary.BigEndian.Uint64(s.Sig)
	return ed25519.Verify(k.Pub, cosigMessage(t, text), s.Sig[8:]), t
}

// CheckpointText formats the three checkpoint lines plus extension lines.
func CheckpointText(origin string, size uint64, root []byte, ext ...string) string {
	s := fmt.Sprintf("%s\n%d\n%s\n", origin, size, base64.StdEncoding.EncodeToString(root))
	for _, e := range ext {
		s += e + "\n"
	}
	return s
}

// ParseCheckpointText is the harness's reading of a checkpoint body.
func ParseCheckpointText(text string) (origin string, size uint64, root []byte, err error) {
	l := strings.SplitN(text, "\n", 4)
	if len(l) < 4 {
		return "", 0, nil, errors.New("harness: too few lines")
	}
	origin = l[0]
	if l[1] == "" {
		return "", 0, nil, errors.New("harness: empty size")
	}
	for _, c := range l[1] {
		if c < '0' || c > '9' {
			return "", 0, nil, errors.New("harness: bad size")
		}
		d := uint64(c - '0')
		if size > (^uint64(0)-d)/10 {
			return "", 0, nil, errors.New("harness: size overflow")
		}
		size = size*10 + d
	}
	root, err = base64.StdEncoding.DecodeString(l[2])
	return
}
