//go:build go1.25

package verifsim

import (
	"context"
	"fmt"
	"net/http"
	"net/url"
	"os"
	"path/filepath"
	"strconv"
	"strings"
	"sync"
	"testing"
	"testing/synctest"
	"time"

	f_note "github.com/transparency-dev/formats/note"
	"github.com/transparency-dev/witness/internal/config"
	"github.com/transparency-dev/witness/internal/persistence/inmemory"
	"github.com/transparency-dev/witness/omniwitness"
	"gopkg.in/yaml.v3"
)

// the embedded configuration, captured before any scenario points ConfigLogs elsewhere
var embeddedConfigLogs = append([]byte{}, omniwitness.ConfigLogs...)

var c17Files = []string{"logs.yaml", "logs_test.yaml"}
var c17Nets = []string{"drop", "stall", "garbage:7", "status:500", "empty", "status:404", "status:403", "othershard", "emptysth"}

func c17Config(file string) ([]byte, error) {
	if file == "logs.yaml" {
		return embeddedConfigLogs, nil // what the binaries embed (go:embed of the working tree's file)
	}
	repo := os.Getenv("VERIF_REPO_DIR")
	if repo == "" {
		repo = "/repo"
	}
	return os.ReadFile(filepath.Join(repo, "omniwitness", file))
}

func init() {
	register(&Scenario{
		Prop:  "C17",
		Level: "exploration",
		Rule:  "finite: for each of the two shipped files (logs.yaml as embedded in the build, logs_test.yaml from the working tree) and each of 9 hostile networks (every host down, stalled past the timeout, serving garbage, 500, empty bodies, 404, 403, well-formed answers that do not list the configured Rekor trees, and answers that list them with empty or line-less tree heads) the real omniwitness.Main is booted in a synctest bubble with polling and the distributor enabled and run for 10 simulated minutes, stopped, and booted once more in the same process: it must not return or panic, and every entry with a feeder must issue at least one request to its configured host with the path its feeder type starts from; and, through the same loaders Main uses: every key parses, no two IDs collide, feeder types are known, URLs are well-formed with a supported scheme, rekor URLs carry treeID, the witness map and the feeder list name the same IDs. evaluations = entries x networks; every entry is covered in each run (exhaustive over entries); non-trivial = an entry with a feeder; distinct = (file, entry origin)",
		Total: func(tier string) uint64 { return uint64(len(c17Files) * len(c17Nets)) },
		Gen: func(r *Rng, tier string, n uint64) *Plan {
			p := &Plan{Scenario: "config"}
			p.Cfg = Config{Store: "mem", WitKeys: []string{"ed:0", "cosig:0"}, Notes: map[string]string{"file": c17Files[int(n)%len(c17Files)], "net": c17Nets[int(n)/len(c17Files)%len(c17Nets)]}, Extra: map[string]int64{}}
			return p
		},
		Run: func(t *testing.T, p *Plan) *Outcome {
			out := &Outcome{Stats: newStats()}
			file, netKind := p.Cfg.Notes["file"], p.Cfg.Notes["net"]
			add := func(cls, sig, d string) {
				out.Viol = append(out.Viol, Violation{Class: cls, Sig: cls + "/" + sig, Detail: d})
			}
			raw, err := c17Config(file)
			if err != nil {
				out.Infra = []string{"cannot read " + file + ": " + err.Error()}
				return out
			}
			// static part, through the loaders Main uses
			cfg := omniwitness.LogConfig{}
			if err := yaml.Unmarshal(raw, &cfg); err != nil {
				add("startup_failed", "yaml", fmt.Sprintf("%s does not unmarshal into the log configuration (this is also how an unknown feeder type shows): %v", file, err))
				return out
			}
			if len(cfg.Logs) == 0 {
				add("startup_failed", "empty", file+" configures no logs")
				return out
			}
			ids := map[string]string{}
			feederIDs := map[string]bool{}
			for _, l := range cfg.Logs {
				out.Evals++
				lc, err := config.NewLog(l.Origin, l.PublicKey, l.URL)
				if err != nil {
					add("startup_failed", "key", fmt.Sprintf("%s: entry %q: the public key does not parse into a verifier: %v", file, l.Origin, err))
					continue
				}
				if lc.ID != LogID(l.Origin) {
					add("id_collision", "id_function", fmt.Sprintf("%s: entry %q: config ID %s is not hex(sha256('o:'+origin))", file, l.Origin, lc.ID))
				}
				if prev, dup := ids[lc.ID]; dup {
					add("id_collision", "duplicate", fmt.Sprintf("%s: entries %q and %q share ID %s", file, prev, l.Origin, lc.ID))
				}
				ids[lc.ID] = l.Origin
				if l.Feeder == omniwitness.None {
					continue
				}
				feederIDs[lc.ID] = true
				func() {
					defer func() {
						if x := recover(); x != nil {
							add("startup_panicked", "feeder_type", fmt.Sprintf("%s: entry %q: %v", file, l.Origin, x))
						}
					}()
					_ = l.Feeder.FeedFunc()
				}()
				u, err := url.Parse(l.URL)
				if err != nil || u.Host == "" || (u.Scheme != "http" && u.Scheme != "https") {
					add("startup_failed", "url", fmt.Sprintf("%s: entry %q: URL %q is not a well-formed http(s) URL (%v)", file, l.Origin, l.URL, err))
					continue
				}
				if l.Feeder == omniwitness.Rekor && u.Query().Get("treeID") == "" {
					add("startup_failed", "rekor_treeid", fmt.Sprintf("%s: entry %q: rekor URL %q lacks the treeID parameter", file, l.Origin, l.URL))
				}
				// ... and the URL as the feeder is handed it (after the loader) still is one it can start from
				fu, ferr := url.Parse(lc.URL)
				if ferr != nil || fu.Host != u.Host || fu.Scheme != u.Scheme || strings.Contains(fu.Path, "//") {
					add("startup_failed", "url_as_loaded", fmt.Sprintf("%s: entry %q: the loader turned URL %q into %q", file, l.Origin, l.URL, lc.URL))
				} else if l.Feeder == omniwitness.Rekor {
					if _, err := strconv.ParseUint(fu.Query().Get("treeID"), 10, 64); err != nil || fu.Query().Get("treeID") != u.Query().Get("treeID") {
						add("startup_failed", "rekor_treeid_as_loaded", fmt.Sprintf("%s: entry %q: the feeder is handed URL %q whose treeID %q is not the configured tree number %q", file, l.Origin, lc.URL, fu.Query().Get("treeID"), u.Query().Get("treeID")))
					}
				}
				out.Distinct = append(out.Distinct, file+"/"+l.Origin)
			}
			m, err := cfg.AsLogMap()
			if err != nil {
				add("startup_failed", "aslogmap", fmt.Sprintf("%s: AsLogMap: %v", file, err))
			} else {
				for id := range ids {
					li, ok := m[id]
					if !ok {
						add("map_list_mismatch", "missing_in_map", fmt.Sprintf("%s: %q is in the log list but not in the witness map", file, ids[id]))
						continue
					}
					// ... and describes the same log: the origin the witness will insist on is the entry's own
					if li.Origin != ids[id] {
						add("map_list_mismatch", "origin_in_map", fmt.Sprintf("%s: the witness map files entry %q under its ID but with origin %q", file, ids[id], li.Origin))
					}
					if li.SigV == nil {
						add("map_list_mismatch", "no_verifier_in_map", fmt.Sprintf("%s: the witness map has no verifier for entry %q", file, ids[id]))
					}
				}
				for id := range m {
					if _, ok := ids[id]; !ok {
						add("map_list_mismatch", "missing_in_list", fmt.Sprintf("%s: ID %s is in the witness map but not in the log list", file, id))
					}
				}
			}
			if len(out.Viol) > 0 {
				return out
			}
			// dynamic part: boot the real Main on this configuration against a hostile network
			var infra string
			// twice in the same process (an operator's supervisor, or a test harness, starts Main again after it was stopped):
			// whatever the first start did to process-wide state, the shipped configuration still loads the second time
			boot := func() {
				defer func() {
					if x := recover(); x != nil {
						infra = fmt.Sprintf("bubble ended abnormally: %v", x)
						dumpGoroutines()
					}
				}()
				synctest.Test(t, func(t *testing.T) {
					pinGlobalRand(p.Seed)
					w := NewWorld(p)
					signers, _ := w.Signers()
					witV, _ := f_note.NewVerifierForCosignatureV1(w.WitKeys[1].Key.VerifierString())
					omniwitness.ConfigLogs = raw
					sn := NewSimNet()
					sn.Default = netKind
					if netKind == "othershard" || netKind == "emptysth" {
						sn.Default = ""
					}
					for _, l := range cfg.Logs {
						if u, err := url.Parse(l.URL); err == nil {
							sn.Hosts[u.Host] = http.HandlerFunc(func(rw http.ResponseWriter, rq *http.Request) {
								if netKind == "emptysth" && rq.URL.Path == "/api/v1/log" {
									// a Rekor that lists every configured tree but with tree heads that are empty or lack their line structure
									var inact []string
									for _, l2 := range cfg.Logs {
										if u2, err := url.Parse(l2.URL); err == nil && l2.Feeder == omniwitness.Rekor && u2.Host == rq.Host {
											inact = append(inact, fmt.Sprintf(`{"signedTreeHead":%q,"treeID":%q,"treeSize":1,"rootHash":"00"}`, []string{"", "x", "no newline at all"}[len(inact)%3], u2.Query().Get("treeID")))
										}
									}
									active := `"signedTreeHead":"","treeID":"999","treeSize":1,"rootHash":"00"`
									if len(inact) > 0 {
										active = strings.Trim(inact[0], "{}")
										inact = inact[1:]
									}
									fmt.Fprintf(rw, `{%s,"inactiveShards":[%s]}`, active, strings.Join(inact, ","))
									return
								}
								if netKind == "othershard" && rq.URL.Path == "/api/v1/log" {
									// a Rekor that answers properly but, for now, does not list the configured trees (a lagging replica)
									rw.Write([]byte(`{"signedTreeHead":"other.example/log\n1\nAAAA\n\n\u2014 k AAAAAAAA\n","treeID":"999","treeSize":1,"rootHash":"00","inactiveShards":[]}`))
									return
								}
								rw.Write([]byte("hello"))
							})
						}
					}
					sn.Hosts["distributor.example"] = http.NotFoundHandler()
					ln := newMemListener()
					var pmu sync.Mutex
					pfired := 0
					store := faultyP{in: inmemory.NewPersistence(), mu: &pmu, occ: map[string]int{}, fired: &pfired}
					ctx, cancel := context.WithCancel(context.Background())
					done := make(chan error, 1)
					go func() {
						done <- omniwitness.Main(ctx, omniwitness.OperatorConfig{WitnessKeys: signers, WitnessVerifier: witV,
							FeedInterval: time.Minute, RestDistributorBaseURL: "http://distributor.example", DistributeInterval: time.Minute},
							store, ln, &http.Client{Transport: sn, Timeout: 10 * time.Second})
					}()
					returned := false
					var merr error
					for i := 0; i < 60 && !returned; i++ {
						time.Sleep(10 * time.Second)
						synctest.Wait()
						select {
						case merr = <-done:
							returned = true
						default:
						}
					}
					if returned {
						add("startup_failed", "main_returned", fmt.Sprintf("%s / network %s: Main returned after %v: %v", file, netKind, time.Since(time.Date(2000, 1, 1, 0, 0, 0, 0, time.UTC)), merr))
					}
					reqs := sn.Requests()
					// entries that share a host and a starting path (the shards of one Rekor instance) each have a feeder of their
					// own: in the first seconds after the start that path is asked for at least once per such entry
					sharers := map[string]int{}
					early := map[string]int{}
					bootT := time.Date(2000, 1, 1, 0, 0, 0, 0, time.UTC)
					for _, l := range cfg.Logs {
						if l.Feeder == omniwitness.Rekor {
							if u, err := url.Parse(l.URL); err == nil {
								sharers[u.Host]++
							}
						}
					}
					for _, q := range reqs {
						if q.Method == "GET" && strings.HasSuffix(q.Path, "api/v1/log?stable=true") && q.At.Sub(bootT) < 5*time.Second {
							early[q.Host]++
						}
					}
					for host, n := range sharers {
						if early[host] < n && !returned {
							add("no_wellformed_request", "rekor_shards_share_a_feeder", fmt.Sprintf("%s / network %s: %d entries are Rekor trees on %s, each with a feeder of its own, but only %d first polls reached it in the first 5 simulated seconds", file, netKind, n, host, early[host]))
						}
					}
					for _, l := range cfg.Logs {
						if l.Feeder == omniwitness.None {
							continue
						}
						u, _ := url.Parse(l.URL)
						wantSuffix := map[omniwitness.Feeder]string{omniwitness.SumDB: "/latest", omniwitness.Serverless: "checkpoint", omniwitness.Tiles: "checkpoint", omniwitness.Pixel: "checkpoint.txt", omniwitness.Rekor: "api/v1/log?stable=true"}[l.Feeder]
						base := strings.TrimSuffix(u.Path, "/")
						found := false
						for _, q := range reqs {
							if q.Host == u.Host && q.Method == "GET" && strings.HasPrefix(q.Path, base) && strings.HasSuffix(q.Path, wantSuffix) && !strings.Contains(q.Path, "//") {
								found = true
							}
						}
						if !found && !returned {
							add("no_wellformed_request", fmt.Sprint(l.Feeder), fmt.Sprintf("%s / network %s: entry %q issued no GET to %s%s...%s in 10 simulated minutes", file, netKind, l.Origin, u.Host, base, wantSuffix))
						}
					}
					// the log list Main hands to the distributor (and to the bastion feeder) must name every configured log:
					// the distributor asks the witness for each of them once per cycle, which shows at the storage seam
					pmu.Lock()
					for _, l := range cfg.Logs {
						if store.occ["R.GetLatest/"+LogID(l.Origin)] == 0 && !returned {
							add("map_list_mismatch", "log_list_lacks_entry", fmt.Sprintf("%s / network %s: in 10 simulated minutes the distributor never asked the witness about %q (feeder %v): Main's log list does not contain it although the witness map does", file, netKind, l.Origin, l.Feeder))
						}
					}
					pmu.Unlock()
					out.Stats.Probes["requests_seen"] += len(reqs)
					for k, v := range sn.Fired {
						out.Stats.Fired[k] += v
					}
					cancel()
					for i := 0; i < 120 && !returned; i++ {
						synctest.Wait()
						select {
						case <-done:
							returned = true
						default:
							time.Sleep(time.Second)
						}
					}
					ln.Close()
					time.Sleep(2 * time.Minute)
					synctest.Wait()
				})
			}
			boot()
			if infra == "" && len(out.Viol) == 0 {
				boot()
				for i := range out.Viol {
					out.Viol[i].Detail = "second start in the same process: " + out.Viol[i].Detail // (same signature as at a first start: state left in the process makes later first starts fail the same way)
				}
			}
			if infra != "" {
				out.Infra = []string{infra}
			}
			out.Events = []string{file, netKind, fmt.Sprint(len(cfg.Logs), " entries")}
			var origins []string
			for _, l := range cfg.Logs {
				origins = append(origins, l.Origin)
			}
			out.Sample = map[string]any{"file": file, "network": netKind, "entries": origins}
			return out
		},
		Components: map[string]string{
			"omniwitness.Main, LogConfig/AsLogMap, Feeder.UnmarshalYAML/FeedFunc, internal/config.NewLog":         "real",
			"all five feeders' start-up paths (sumdb, serverless, rekor, pixel, tiles), internal/distribute/rest": "real, against a hostile network",
			"omniwitness/logs.yaml":      "as embedded by go:embed in this build of the working tree",
			"omniwitness/logs_test.yaml": "read from the working tree",
			"network":                    "simnet: every request dropped / stalled / answered with garbage, 500 or an empty body",
		},
		Assumptions: []string{"the real logs cannot be impersonated (their keys are not ours), so feeders are only observed up to their first request", "a panic in a goroutine started by Main kills the worker process; the driver reports that as the violation for this property"},
	})
}

// mainRefusesConfig starts the real omniwitness.Main on the given log configuration (written as YAML into ConfigLogs, all
// feeders off) inside a bubble and reports whether it returned an error within five simulated seconds instead of serving.
func mainRefusesConfig(t *testing.T, p *Plan, w *World, cfg omniwitness.LogConfig) (refused bool, merr error, infra string) {
	var y strings.Builder
	y.WriteString("Logs:\n")
	for _, l := range cfg.Logs {
		fmt.Fprintf(&y, "  - Origin: %s\n    URL: %s\n    PublicKey: %s\n    Feeder: none\n", yamlQuote(l.Origin), yamlQuote(l.URL), yamlQuote(l.PublicKey))
	}
	saved := omniwitness.ConfigLogs
	defer func() { omniwitness.ConfigLogs = saved }()
	defer func() {
		if x := recover(); x != nil {
			infra = fmt.Sprintf("bubble ended abnormally: %v", x)
		}
	}()
	synctest.Test(t, func(t *testing.T) {
		pinGlobalRand(p.Seed)
		omniwitness.ConfigLogs = []byte(y.String())
		signers, _ := w.Signers()
		ln := newMemListener()
		ctx, cancel := context.WithCancel(context.Background())
		done := make(chan error, 1)
		go func() {
			done <- omniwitness.Main(ctx, omniwitness.OperatorConfig{WitnessKeys: signers, FeedInterval: time.Minute},
				inmemory.NewPersistence(), ln, &http.Client{Transport: NewSimNet(), Timeout: 10 * time.Second})
		}()
		time.Sleep(5 * time.Second)
		synctest.Wait()
		returned := false
		select {
		case merr = <-done:
			returned, refused = true, merr != nil
		default:
		}
		cancel()
		for i := 0; i < 120 && !returned; i++ {
			synctest.Wait()
			select {
			case <-done:
				returned = true
			default:
				time.Sleep(time.Second)
			}
		}
		ln.Close()
		time.Sleep(2 * time.Minute)
		synctest.Wait()
		if !returned {
			infra = "Main did not stop within two simulated minutes of its context ending"
		}
	})
	return
}
