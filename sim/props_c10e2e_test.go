package verifsim

// End-to-end half of C10: the real bastion.FeedBastion (reverse TLS 1.3 + HTTP/2 connection) against a stub
// bastion on loopback. This cannot live in a synctest bubble (a goroutine in netpoll is not durably blocked)
// and rewriting the dial expression in shipped code is out of bounds, so it runs on REAL sockets in REAL time:
// it is sequential (one request in flight), its oracles do not depend on timing, and it is labelled
// "real sockets, not schedule-controlled" in the evidence. Replay re-runs the same request script.

import (
	"bytes"
	"context"
	"crypto/ecdsa"
	"crypto/ed25519"
	"crypto/elliptic"
	"crypto/rand"
	"crypto/tls"
	"crypto/x509"
	"crypto/x509/pkix"
	"encoding/pem"
	"fmt"
	"io"
	"math/big"
	"net"
	"net/http"
	"os"
	"path/filepath"
	"strings"
	"sync"
	"testing"
	"time"

	f_note "github.com/transparency-dev/formats/note"
	"github.com/transparency-dev/witness/internal/config"
	"github.com/transparency-dev/witness/internal/feeder/bastion"
	"github.com/transparency-dev/witness/internal/persistence/inmemory"
	"github.com/transparency-dev/witness/internal/witness"
	"github.com/transparency-dev/witness/omniwitness"
	"golang.org/x/mod/sumdb/note"
	"golang.org/x/net/http2"
	"golang.org/x/time/rate"
)

type e2eCA struct {
	once   sync.Once
	err    error
	srvDER []byte
	srvKey *ecdsa.PrivateKey
	dir    string
}

var theCA e2eCA

// setupCA generates a CA and a server certificate for 127.0.0.1 and makes the CA the process's system root
// (SSL_CERT_FILE), because connectAndServe dials with the default root pool.
func setupCA() error {
	theCA.once.Do(func() {
		dir, err := scratchDir("ca")
		if err != nil {
			theCA.err = err
			return
		}
		theCA.dir = dir
		caKey, _ := ecdsa.GenerateKey(elliptic.P256(), rand.Reader)
		caT := &x509.Certificate{SerialNumber: big.NewInt(1), Subject: pkix.Name{CommonName: "verifsim CA"}, NotBefore: time.Now().Add(-time.Hour), NotAfter: time.Now().Add(48 * time.Hour), IsCA: true, KeyUsage: x509.KeyUsageCertSign, BasicConstraintsValid: true}
		caDER, err := x509.CreateCertificate(rand.Reader, caT, caT, &caKey.PublicKey, caKey)
		if err != nil {
			theCA.err = err
			return
		}
		caCert, _ := x509.ParseCertificate(caDER)
		theCA.srvKey, _ = ecdsa.GenerateKey(elliptic.P256(), rand.Reader)
		srvT := &x509.Certificate{SerialNumber: big.NewInt(2), Subject: pkix.Name{CommonName: "localhost"}, DNSNames: []string{"localhost"}, IPAddresses: []net.IP{net.IPv4(127, 0, 0, 1)}, NotBefore: time.Now().Add(-time.Hour), NotAfter: time.Now().Add(48 * time.Hour), KeyUsage: x509.KeyUsageDigitalSignature, ExtKeyUsage: []x509.ExtKeyUsage{x509.ExtKeyUsageServerAuth}}
		theCA.srvDER, err = x509.CreateCertificate(rand.Reader, srvT, caCert, &theCA.srvKey.PublicKey, caKey)
		if err != nil {
			theCA.err = err
			return
		}
		caFile := filepath.Join(dir, "ca.pem")
		if err := os.WriteFile(caFile, pem.EncodeToMemory(&pem.Block{Type: "CERTIFICATE", Bytes: caDER}), 0o600); err != nil {
			theCA.err = err
			return
		}
		os.Setenv("SSL_CERT_FILE", caFile)
		os.Setenv("SSL_CERT_DIR", dir)
	})
	return theCA.err
}

func e2eRun(p *Plan) (r *c10Result, probes map[string]int) {
	r = &c10Result{rate: 1000}
	if p.Cfg.Extra["rate0"] != 0 {
		r.rate = 0
	}
	probes = map[string]int{}
	fail := func(format string, a ...any) (*c10Result, map[string]int) {
		r.infra = fmt.Sprintf(format, a...)
		return r, probes
	}
	if err := setupCA(); err != nil {
		return fail("CA: %v", err)
	}
	w := NewWorld(p)
	r.W = w
	known, _ := w.KnownLogs()
	signers, _ := w.Signers()
	realW, err := witness.New(witness.Opts{Persistence: inmemory.NewPersistence(), Signers: signers, KnownLogs: known})
	if err != nil {
		return fail("%v", err)
	}
	pub := w.WitKeys[0]
	for _, wk := range w.WitKeys {
		if wk.Cosig {
			pub = wk
			break
		}
	}
	var witV note.Verifier
	if pub.Cosig {
		witV, err = f_note.NewVerifierForCosignatureV1(pub.Key.VerifierString())
	} else {
		witV, err = note.NewVerifier(pub.Key.VerifierString())
	}
	if err != nil {
		return fail("%v", err)
	}
	var logs []config.Log
	for _, ld := range w.Logs {
		cl, err := config.NewLog(ld.Origin, ld.Key.VerifierString(), "http://unused/")
		if err != nil {
			return fail("%v", err)
		}
		logs = append(logs, cl)
	}
	ln, err := tls.Listen("tcp", "127.0.0.1:0", &tls.Config{
		Certificates: []tls.Certificate{{Certificate: [][]byte{theCA.srvDER}, PrivateKey: theCA.srvKey}},
		ClientAuth:   tls.RequireAnyClientCert, NextProtos: []string{"bastion/0"}, MinVersion: tls.VersionTLS13,
	})
	if err != nil {
		return fail("listen: %v", err)
	}
	defer ln.Close()
	seed := worldKey(p.Seed, "bastionkey", 0)
	bkey := ed25519.NewKeyFromSeed(seed[:])
	cw := &countingWitness{in: omniwitness.VerifWitnessAdapter(realW)}
	ctx, cancel := context.WithCancel(context.Background())
	defer cancel()
	done := make(chan error, 1)
	go func() {
		done <- bastion.FeedBastion(ctx, bastion.Config{Addr: ln.Addr().String(), Logs: logs, BastionKey: bkey, WitnessVerifier: witV,
			Limits: bastion.RequestLimits{TotalPerSecond: rate.Limit(r.rate)}}, cw)
	}()
	add := func(cls, sig, d string) {
		r.reqs = append(r.reqs, &c10Req{Kind: "e2e:" + cls, Want: "e2e_violation", Status: -1, RBody: []byte(sig + ": " + d)})
	}
	accept := func() (*http2.ClientConn, *tls.Conn, bool) {
		type res struct {
			c   net.Conn
			err error
		}
		ch := make(chan res, 1)
		go func() { c, err := ln.Accept(); ch <- res{c, err} }()
		select {
		case a := <-ch:
			if a.err != nil {
				add("connect", "accept", a.err.Error())
				return nil, nil, false
			}
			tc := a.c.(*tls.Conn)
			hctx, hc := context.WithTimeout(ctx, 20*time.Second)
			defer hc()
			if err := tc.HandshakeContext(hctx); err != nil {
				add("connect", "handshake", err.Error())
				return nil, nil, false
			}
			st := tc.ConnectionState()
			if st.Version != tls.VersionTLS13 || st.NegotiatedProtocol != "bastion/0" {
				add("connect", "protocol", fmt.Sprintf("TLS version %x, ALPN %q", st.Version, st.NegotiatedProtocol))
			}
			if len(st.PeerCertificates) != 1 {
				add("connect", "client_cert", fmt.Sprintf("%d client certificates", len(st.PeerCertificates)))
			} else if pk, ok := st.PeerCertificates[0].PublicKey.(ed25519.PublicKey); !ok || !bytes.Equal(pk, bkey.Public().(ed25519.PublicKey)) {
				add("connect", "client_cert_key", "the client certificate's key is not the configured bastion key")
			}
			cc, err := (&http2.Transport{}).NewClientConn(tc)
			if err != nil {
				add("connect", "http2", err.Error())
				return nil, nil, false
			}
			return cc, tc, true
		case <-time.After(40 * time.Second):
			add("connect", "timeout", "the witness did not (re)connect to the bastion within 40 s")
			return nil, nil, false
		}
	}
	t0 := time.Now()
	cc, tc, ok := accept()
	if !ok {
		return r, probes
	}
	probes["connected_after_ms"] += int(time.Since(t0) / time.Millisecond)
	tracked := map[string]Stored{}
	rng := NewRng(p.Seed ^ 0xe2e)
	reconnectAt := int(p.Cfg.Extra["reconnect_at"])
	for oi, op := range p.Ops {
		if op.K != "update" {
			continue
		}
		if oi == reconnectAt {
			// the bastion drops the connection; the witness must come back and carry on from the same state
			tc.Close()
			t1 := time.Now()
			cc, tc, ok = accept()
			if !ok {
				return r, probes
			}
			probes["reconnected_after_ms"] += int(time.Since(t1) / time.Millisecond)
			probes["reconnects"]++
		}
		src := w.Logs[((op.L%len(w.Logs))+len(w.Logs))%len(w.Logs)]
		req := resolveUpdate(w, op, tracked[src.ID])
		cr := &c10Req{Op: op, Req: req, Kind: "update", T: time.Now()}
		cr.Body = wireBody(req.Old, req.Proof, req.CP)
		first, _, _ := strings.Cut(string(req.CP), "\n")
		target := w.LogByID(LogID(first))
		if target != nil {
			cr.St = tracked[target.ID]
		}
		switch {
		case op.P == "malformed":
			cr.Kind = "malformed:" + c10MalformKinds[umod(op.PV, len(c10MalformKinds))]
			cr.Body = c10Malform(strings.TrimPrefix(cr.Kind, "malformed:"), cr.Body, rng)
			cr.Want = "any"
			if refBodyMalformed(cr.Body) {
				cr.Want = "malformed"
			}
		case !strings.Contains(string(req.CP), "\n"):
			cr.Want = "malformed"
		case target == nil:
			cr.Want = "unknown_origin"
		default:
			sigValid := req.SigValid
			if target.ID != req.LogID {
				sigValid = -1
			}
			cr.Want = modelVerdict(true, sigValid, cr.St, req.Size, req.Root, req.Old, req.Proof)
			for _, h := range req.Proof {
				if len(h) == 0 {
					cr.Want = "any"
				}
			}
		}
		before := len(cw.calls)
		hreq, _ := http.NewRequest(http.MethodPost, "https://bastion.example/add-checkpoint", bytes.NewReader(cr.Body))
		rctx, rc := context.WithTimeout(ctx, 30*time.Second)
		resp, err := cc.RoundTrip(hreq.WithContext(rctx))
		if err != nil {
			rc()
			add("request", "transport", fmt.Sprintf("request %d (%s): %v", oi, cr.Kind, err))
			return r, probes
		}
		cr.RBody, _ = io.ReadAll(resp.Body)
		resp.Body.Close()
		rc()
		cr.Status, cr.CType = resp.StatusCode, resp.Header.Get("Content-Type")
		cr.Calls = len(cw.calls) - before
		if target != nil {
			if cur, err := realW.GetCheckpoint(target.ID); err == nil {
				cr.After = parseStored(cur)
				tracked[target.ID] = cr.After
			}
		}
		r.reqs = append(r.reqs, cr)
	}
	// shutdown: once the context is done and the bastion lets go of the connection, FeedBastion returns
	cancel()
	tc.Close()
	select {
	case <-done:
		probes["feedbastion_returned"]++
	case <-time.After(30 * time.Second):
		add("shutdown", "no_return", "FeedBastion did not return within 30 s of its context ending and the connection closing")
	}
	return r, probes
}

func init() {
	register(&Scenario{
		Prop:  "C10e2e",
		Level: "exploration",
		Rule:  "end-to-end supplement of C10 (REAL loopback sockets, REAL time, not schedule-controlled): the real bastion.FeedBastion dials a stub bastion over TLS 1.3 (ALPN bastion/0, client certificate = the configured Ed25519 key, trust via a generated CA in SSL_CERT_FILE) and serves HTTP/2 on the reverse connection; a seeded sequential request script (every verdict class, malformed bodies incl. > 16 KiB) is sent through it, the bastion drops the connection once mid-script and the witness must reconnect and carry on; same status oracle as the in-process check",
		Gen: func(r *Rng, tier string, n uint64) *Plan {
			pf := Profile{MaxLogs: 2, ShareKeys: true, MinOps: 10, MaxOps: 30, Adversarial: 0.6, Mutations: 0.2}
			p := &Plan{Scenario: "bastion-e2e"}
			p.Cfg = genConfig(r, pf)
			p.Cfg.Store = "mem"
			p.Cfg.WitKeys = Pick(r, []string{"ed:0", "cosig:0"}, []string{"cosig:0"})
			for _, o := range genHistory(r, pf, &p.Cfg) {
				if o.K != "update" {
					continue
				}
				if o.M == "unknownlog" || o.M == "crosslog" || o.M == "xsig_unknown" || o.M == "prime_other" {
					o.M = ""
				}
				if r.Chance(0.15) {
					o.P, o.PV = "malformed", r.Uint64()
				}
				p.Ops = append(p.Ops, o)
			}
			// every script carries at least one body beyond the 16 KiB cap (only this path runs the cap as shipped)
			big := Op{K: "update", L: 0, D: 1, P: "malformed", PV: 10}
			at := r.IntN(len(p.Ops) + 1)
			p.Ops = append(p.Ops[:at:at], append([]Op{big}, p.Ops[at:]...)...)
			p.Cfg.Extra = map[string]int64{"reconnect_at": int64(r.IntN(len(p.Ops)))}
			if n%3 == 1 {
				// configured rate 0: nothing is to be served (the limiter is built inside FeedBastion, so only this path sees it as shipped)
				p.Cfg.Extra["rate0"] = 1
				p.Ops = p.Ops[:min(4, len(p.Ops))]
				p.Cfg.Extra["reconnect_at"] = -1
			}
			return p
		},
		Run: func(t *testing.T, p *Plan) *Outcome {
			out := &Outcome{Stats: newStats()}
			r, probes := e2eRun(p)
			for k, v := range probes {
				out.Stats.Probes["e2e_"+k] += v
			}
			if r.infra != "" {
				out.Infra = []string{"e2e: " + r.infra}
				return out
			}
			var real []*c10Req
			for _, q := range r.reqs {
				if q.Want == "e2e_violation" {
					out.Viol = append(out.Viol, Violation{Property: "C10", Class: "e2e_" + strings.TrimPrefix(q.Kind, "e2e:"), Sig: "e2e/" + string(q.RBody[:min(len(q.RBody), 40)]), Detail: "over the real reverse TLS/HTTP2 connection: " + string(q.RBody)})
					continue
				}
				real = append(real, q)
				out.Events = append(out.Events, fmt.Sprintf("%s %d", q.Want, q.Status))
				out.Stats.Probes[fmt.Sprintf("e2e_status_%d", q.Status)]++
				out.Distinct = append(out.Distinct, fmt.Sprintf("e2e/%s/%d", q.Want, q.Status))
			}
			r.reqs = real
			for _, v := range oracleC10(p, r) {
				v.Property = "C10"
				v.Detail = "over the real reverse TLS/HTTP2 connection: " + v.Detail
				out.Viol = append(out.Viol, v)
			}
			out.Stats.Fired["bastion_dropped_connection"] += probes["reconnects"]
			out.Sample = map[string]any{"e2e": true, "requests": len(real), "reconnect_at": p.Cfg.Extra["reconnect_at"]}
			return out
		},
		Components: map[string]string{"bastion.FeedBastion, connectAndServe (ticker, TLS 1.3 dial, http2.Server.ServeConn, MaxBytesHandler), addHandler, witnessAdapter, witness": "real, over loopback TCP in real time"},
	})
}
