//go:build go1.25

package verifsim

import (
	"fmt"
	"testing"
)

// C05long: one update is parked right before its write to the store while K other writes to the same log complete,
// K around the powers of two at which a small counter, generation number or bounded cache inside a store would wrap or
// evict; then the parked write is released. It must not be accepted on the strength of the state it read (direct
// invariants of oracleC05 on the commit sequence). Runs as one extra worker process of ./check C05.
var c05longKs = []int{256, 255, 257, 65536, 512, 65535, 1024, 65537, 4096, 4097, 131072, 2}

func init() {
	register(&Scenario{
		Prop:  "C05long",
		Level: "exploration",
		Rule:  "one update parked before its Set while K in {2,255..257,512,1024,4096,4097,65535..65537,131072} further writes (one growth step then refreshes, or growth steps only) to the same log complete on the in-memory store, then released",
		Gen: func(r *Rng, tier string, n uint64) *Plan {
			k := c05longKs[int(n)%len(c05longKs)]
			if n >= uint64(len(c05longKs)) {
				k = Pick(r, 256, 65536, 1<<uint(r.Range(1, 16)), 1<<uint(r.Range(1, 16))) + r.Range(-1, 1)
				if k < 1 {
					k = 1
				}
			}
			p := &Plan{Scenario: "W"}
			p.Cfg = Config{Store: "mem", Seam: "iface", Clients: 2, Strategy: "holdat", Dense: 64, WitKeys: Pick(r, []string{"ed:0"}, []string{"cosig:0"}),
				Logs:  []LogCfg{{Origin: "sim.example/long", Key: 0}},
				Notes: map[string]string{"hold_key": "c0:W.Set#1"},
				Extra: map[string]int64{"k": int64(k), "hang_s": 600, "max_decisions": 1 << 40}}
			first := uint64(r.Range(1, 9))
			p.Ops = []Op{{C: 0, K: "update", L: 0, D: first}, {C: 0, K: "update", L: 0, D: uint64(r.Range(0, 3))}}
			if r.Chance(0.5) {
				// growth steps only
				p.Ops = append(p.Ops, Op{C: 1, K: "update", L: 0, D: 1, Rep: k})
			} else {
				p.Ops = append(p.Ops, Op{C: 1, K: "update", L: 0, D: uint64(r.Range(1, 5))})
				if k > 1 {
					p.Ops = append(p.Ops, Op{C: 1, K: "update", L: 0, D: 0, Rep: k - 1})
				}
			}
			p.Tape = genTape(r, 8)
			return p
		},
		Run: func(t *testing.T, p *Plan) *Outcome {
			res, out := baseOutcome(t, p, false)
			if len(out.Infra) > 0 {
				return out
			}
			out.Events = nil // hundreds of thousands of lines; replay compares the violation only
			out.Viol = append(out.Viol, oracleC05(res, &out.Stats)...)
			for i := range out.Viol {
				out.Viol[i].Property = "C05"
			}
			// did the scenario do what it is for? the parked write must have been decided after all the others
			var last *OpRec
			writes := 0
			for _, r := range res.Hist {
				if r.Task == "c1" && r.Class == "accept" {
					writes++
				}
				if r.Task == "c0" {
					last = r
				}
			}
			if last != nil && writes > 0 {
				out.Stats.Probes["parked_write_released_after_k_writes"]++
				out.Stats.Probes[fmt.Sprintf("k=%d", writes)]++
				out.Distinct = []string{fmt.Sprintf("k=%d/%s", writes, last.Class)}
			}
			return out
		},
		Components:  engineWComponents,
		Assumptions: []string{"counters wider than 17 bits are out of reach of this probe"},
	})
}
