//go:build go1.25

package verifsim

import (
	"context"
	"errors"
	"fmt"
	"net/http"
	"net/url"
	"os"
	"regexp"
	"strings"
	"testing"
	"testing/synctest"
	"time"

	f_note "github.com/transparency-dev/formats/note"
	"github.com/transparency-dev/witness/internal/config"
	"github.com/transparency-dev/witness/internal/distribute/rest"
	"golang.org/x/mod/sumdb/note"
)

// ---------------------------------------------------------------- C15

var c15Answers = []string{"valid", "valid_extra", "valid_big", "missing", "error", "wrong_log_key", "no_wit_sig", "bad_wit_sig", "other_wit", "corrupted", "other_log", "empty", "garbage"}
var c15Net = []string{"redirloop:307", "redirloop:308", "redirloop:302", "redirloop:303", "redirloop:301", "", "", "", "status:400", "status:404", "status:409", "status:500", "status:503", "status:201", "status:401", "status:403", "status:408", "status:410", "status:413", "status:422", "status:425", "status:429", "status:451", "status:501", "status:502", "status:504", "status:507", "status:204", "status:202", "drop", "droprsp", "redirect:301", "redirect:302", "redirect:307", "redirect:308", "trunc:3", "stall", "delay:700"}

type distWitness struct {
	answers map[string][]byte
	errs    map[string]error
	calls   []string
}

func (d *distWitness) GetLatestCheckpoint(ctx context.Context, logID string) ([]byte, error) {
	d.calls = append(d.calls, logID)
	if e := d.errs[logID]; e != nil {
		return nil, e
	}
	return d.answers[logID], nil
}

type c15Result struct {
	W             *World
	err           error
	reqs          []*NetReq
	wcalls        []string
	answers       map[string][]byte
	kinds         []string
	net           []string
	witName       string
	fired         map[string]int
	simTime       time.Duration
	infra         string
	neverFinished bool
	round2        bool
	repeat        bool
	err2          error
	reqs2         []*NetReq
}

func c15Exec(t *testing.T, p *Plan) (r *c15Result) {
	r = &c15Result{}
	defer func() {
		if x := recover(); x != nil {
			r.infra = fmt.Sprintf("bubble ended abnormally: %v", x)
			dumpGoroutines()
		}
	}()
	synctest.Test(t, func(t *testing.T) {
		pinGlobalRand(p.Seed)
		w := NewWorld(p)
		r.W = w
		rng := NewRng(p.Seed ^ 0xd157)
		wk := w.WitKeys[0]
		if n := p.Cfg.Notes["witname"]; n != "" {
			wk.Key = &Key{Name: n, Seed: wk.Key.Seed, Priv: wk.Key.Priv, Pub: wk.Key.Pub}
			w.WitKeys[0] = wk
		}
		r.witName = wk.Key.Name
		var witV note.Verifier
		var err error
		if wk.Cosig {
			witV, err = f_note.NewVerifierForCosignatureV1(wk.Key.VerifierString())
		} else {
			witV, err = note.NewVerifier(wk.Key.VerifierString())
		}
		if err != nil {
			r.infra = "witness verifier: " + err.Error()
			return
		}
		witSign := func(text string) string {
			if wk.Cosig {
				return wk.Key.SignCosigV1(text, uint64(time.Now().Unix()))
			}
			return wk.Key.SignEd25519(text)
		}
		other := NewKey(wk.Key.Name, worldKey(p.Seed, "otherwit", 0))
		dw := &distWitness{answers: map[string][]byte{}, errs: map[string]error{}}
		var logs []config.Log
		r.kinds = strings.Split(p.Cfg.Notes["answers"], ",")
		r.net = strings.Split(p.Cfg.Notes["net"], ",")
		for i, ld := range w.Logs {
			cl, err := config.NewLog(ld.Origin, ld.Key.VerifierString(), "http://log.example/")
			if err != nil {
				r.infra = "config.NewLog: " + err.Error()
				return
			}
			logs = append(logs, cl)
			size := uint64(1 + rng.IntN(500))
			h := ld.Branches[0].Root(size)
			text := CheckpointText(ld.Origin, size, h[:])
			logLine := w.Sign(ld.KeyIdx, &SignedCP{Origin: ld.Origin, Size: size, Root: h[:], Text: text})
			kind := "valid"
			if i < len(r.kinds) {
				kind = r.kinds[i]
			}
			var b []byte
			switch kind {
			case "valid":
				b = MakeNote(text, logLine, witSign(text))
			case "valid_extra":
				b = MakeNote(text, logLine, sigLine("someone", 0x01020304, rng.Bytes(64)), wk.Key.SignEd25519(text)+"", witSign(text))
				if !wk.Cosig {
					b = MakeNote(text, logLine, sigLine("someone", 0x01020304, rng.Bytes(64)), wk.Key.SignCosigV1(text, 5), witSign(text))
				}
			case "valid_big":
				text = CheckpointText(ld.Origin, size, h[:], strings.Repeat("x", 3000))
				logLine = w.Sign(ld.KeyIdx, &SignedCP{Origin: ld.Origin, Size: size, Root: h[:], Text: text})
				b = MakeNote(text, logLine, witSign(text))
			case "missing":
				dw.errs[ld.ID] = os.ErrNotExist
			case "error":
				dw.errs[ld.ID] = errors.New("witness unavailable")
			case "wrong_log_key":
				b = MakeNote(text, w.Stranger.SignEd25519(text), witSign(text))
			case "no_wit_sig":
				b = MakeNote(text, logLine)
			case "bad_wit_sig":
				alg, n := byte(algEd25519), 64
				if wk.Cosig {
					alg, n = algCosigV1, 72
				}
				b = MakeNote(text, logLine, sigLine(wk.Key.Name, wk.Key.KeyHash(alg), rng.Bytes(n)))
			case "other_wit":
				if wk.Cosig {
					b = MakeNote(text, logLine, other.SignCosigV1(text, 7))
				} else {
					b = MakeNote(text, logLine, other.SignEd25519(text))
				}
			case "corrupted":
				b = MakeNote(text, logLine, witSign(text))
				b[rng.IntN(len(text))] ^= 0x20
			case "other_log":
				o := w.Logs[(i+1)%len(w.Logs)]
				if o == ld {
					t2 := CheckpointText(ld.Origin+"/elsewhere", size, h[:])
					b = MakeNote(t2, ld.Key.SignEd25519(t2), witSign(t2))
				} else {
					t2 := CheckpointText(o.Origin, size, h[:])
					b = MakeNote(t2, o.Key.SignEd25519(t2), witSign(t2))
				}
			case "empty":
				b = []byte{}
			case "garbage":
				b = rng.Bytes(1 + rng.IntN(200))
			}
			dw.answers[ld.ID] = b
		}
		r.answers = dw.answers
		sn := NewSimNet()
		sn.Latency = 50 * time.Millisecond // every exchange takes simulated time (a client that follows redirects for ever makes 20 000 requests in the 1000 simulated seconds it is given, not a million)
		sn.Hosts["distributor.example"] = http.HandlerFunc(func(rw http.ResponseWriter, rq *http.Request) {
			if strings.HasPrefix(rq.URL.Path, "/redirected") && p.Cfg.Notes["redirect_target"] == "200" {
				// a distributor (or something in front of it) whose redirect target is a friendly landing page
				rw.WriteHeader(200)
				rw.Write([]byte("welcome"))
				return
			}
			if rq.Method == http.MethodGet && strings.HasPrefix(rq.URL.Path, "/distributor/v0/logs/") {
				// the distributor serves its checkpoint resources to readers too (a PUT that a redirect turned into a GET lands here)
				rw.WriteHeader(200)
				rw.Write([]byte("a checkpoint somebody stored earlier\n"))
				return
			}
			if rq.Method != http.MethodPut || !strings.HasPrefix(rq.URL.Path, "/distributor/v0/logs/") {
				http.NotFound(rw, rq)
				return
			}
			rw.WriteHeader(200)
			rw.Write([]byte("thanks"))
		})
		// network answers are addressed per PUT in order of arrival
		nput := 0
		seenPut := map[string]bool{}
		// faults are keyed by the n-th PUT to the distributor path: resolve lazily through a wrapper
		base := sn
		rt := roundTripFunc(func(req *http.Request) (*http.Response, error) {
			if req.Method == http.MethodPut && strings.HasPrefix(req.URL.Path, "/distributor/") && !strings.HasPrefix(req.URL.Path, "/redirected") && !seenPut[req.URL.EscapedPath()] {
				seenPut[req.URL.EscapedPath()] = true // repeats of the same PUT (a client following a redirect loop) are not new pushes
				base.mu.Lock()
				if nput < len(r.net) && r.net[nput] != "" {
					base.Faults[fmt.Sprintf("net#%d", len(base.Log))] = r.net[nput]
					if strings.HasPrefix(r.net[nput], "redirloop") {
						base.Faults[req.Method+" "+req.URL.Host+req.URL.EscapedPath()+"#*"] = r.net[nput]
					}
				}
				nput++
				base.mu.Unlock()
			}
			return base.RoundTrip(req)
		})
		timeout := 5 * time.Second
		if p.Cfg.Notes["client_timeout"] == "none" {
			timeout = 0 // a client with no overall timeout: net/http's own redirect limit is then the only thing that ends a redirect loop
		}
		d, err := rest.NewDistributor("http://distributor.example", &http.Client{Transport: rt, Timeout: timeout}, logs, witV, dw)
		if err != nil {
			r.infra = "NewDistributor: " + err.Error()
			return
		}
		start := time.Now()
		done := make(chan struct{})
		go func() {
			defer close(done)
			r.err = d.DistributeOnce(context.Background())
		}()
		finished := false
		for i := 0; i < 1000 && !finished; i++ {
			synctest.Wait()
			select {
			case <-done:
				finished = true
			default:
				time.Sleep(time.Second)
			}
		}
		if !finished {
			r.neverFinished = true
			r.simTime = time.Since(start)
			r.reqs, r.wcalls, r.fired = sn.Requests(), dw.calls, sn.Fired
			sn.mu.Lock()
			sn.Default = "drop" // end whatever loop it is in, so that the bubble can be left
			sn.Faults = map[string]string{}
			sn.mu.Unlock()
			for i := 0; i < 2000; i++ {
				synctest.Wait()
				select {
				case <-done:
					i = 1 << 20
				default:
					time.Sleep(time.Second)
				}
			}
			return
		}
		r.simTime = time.Since(start)
		r.reqs, r.wcalls, r.fired = sn.Requests(), dw.calls, sn.Fired
		if (len(w.Logs) >= 2 && p.Cfg.Extra["round2"] != 0) || p.Cfg.Extra["round2"] == 2 {
			// a second round with the same distributor, fault-free: the witness now answers each log's question with what it
			// answered for the NEXT log in the first round (whatever passed the checks then belongs to that other log)
			time.Sleep(time.Minute)
			first := map[string][]byte{}
			for id, b := range dw.answers {
				first[id] = b
			}
			r.answers = first                     // the oracle of the first round compares with these
			r.repeat = p.Cfg.Extra["round2"] == 2 // the second round gets exactly the first round's answers again
			for i, ld := range w.Logs {
				if r.repeat {
					break
				}
				o := w.Logs[(i+1)%len(w.Logs)]
				dw.answers[ld.ID] = first[o.ID]
				delete(dw.errs, ld.ID)
			}
			sn.mu.Lock()
			sn.Faults = map[string]string{}
			sn.mu.Unlock()
			nput = len(r.net) // no network faults in this round
			before := len(sn.Requests())
			done2 := make(chan struct{})
			go func() {
				defer close(done2)
				r.err2 = d.DistributeOnce(context.Background())
			}()
			for i := 0; i < 1000; i++ {
				synctest.Wait()
				select {
				case <-done2:
					i = 1 << 20
				default:
					time.Sleep(time.Second)
				}
			}
			r.round2 = true
			r.reqs2 = sn.Requests()[before:]
		}
		time.Sleep(time.Minute) // let client-side timers of unclosed response bodies run out before the bubble ends
		synctest.Wait()
	})
	return r
}

type roundTripFunc func(*http.Request) (*http.Response, error)

func (f roundTripFunc) RoundTrip(r *http.Request) (*http.Response, error) { return f(r) }

func pctDecode(s string) (string, bool) {
	var sb strings.Builder
	for i := 0; i < len(s); i++ {
		if s[i] != '%' {
			sb.WriteByte(s[i])
			continue
		}
		if i+2 >= len(s)+0 && i+3 > len(s) {
			return "", false
		}
		var b byte
		if _, err := fmt.Sscanf(s[i+1:i+3], "%02x", &b); err != nil {
			return "", false
		}
		sb.WriteByte(b)
		i += 2
	}
	return sb.String(), true
}

var reOutOf = regexp.MustCompile(`(\d+) out of (\d+)`)

func oracleC15(p *Plan, r *c15Result) []Violation {
	var out []Violation
	add := func(cls, sig, d string) { out = append(out, Violation{Class: cls, Sig: cls + "/" + sig, Detail: d}) }
	w := r.W
	if r.neverFinished {
		add("log_skipped_after_failure", "cycle_never_ended", fmt.Sprintf("DistributeOnce was still running after 1000 simulated seconds (answers %v, network %v, client timeout %q, %d requests so far): the remaining logs are never attempted and no result is reported", r.kinds, r.net, p.Cfg.Notes["client_timeout"], len(r.reqs)))
		return out
	}
	if r.round2 && r.repeat {
		// the same answers again: what was refused the first time is refused again (nothing learnt in one cycle makes an
		// unverifiable answer pushable in the next)
		bad := 0
		for i, ld := range w.Logs {
			kind := "valid"
			if i < len(r.kinds) {
				kind = r.kinds[i]
			}
			n := 0
			var first *NetReq
			for _, q := range r.reqs2 {
				if strings.Contains(q.Path, ld.ID) {
					if n == 0 {
						first = q
					}
					n++
				}
			}
			if strings.HasPrefix(kind, "valid") {
				// (an unchanged checkpoint that is not pushed a second time is no violation; one that is pushed carries the answer)
				if n > 1 || (n == 1 && string(first.Body) != string(r.answers[ld.ID])) {
					add("put_body_modified", "later_round", fmt.Sprintf("second round with the same answers (%v), fault-free network: log %d (answer %s) saw %d request(s) carrying its ID, the first with body %s; expected at most one PUT of the witness's answer", r.kinds, i, kind, n, short(first.Body)))
				}
				continue
			}
			bad++
			if n > 0 {
				add("put_for_unverified", "in_a_later_round/"+kind, fmt.Sprintf("second round with the same answers (%v): log %d's answer was %q both times, yet in the second round %s %s was sent with body %s", r.kinds, i, kind, first.Method, first.Path, short(first.Body)))
			}
		}
		if bad > 0 && r.err2 == nil {
			add("error_count_wrong", "nil_in_a_later_round", fmt.Sprintf("second round with the same answers (%v): %d logs could not be distributed but DistributeOnce returned nil", r.kinds, bad))
		}
		r.wcalls = r.wcalls[:min(len(r.wcalls), len(w.Logs))]
	} else if r.round2 {
		// nothing the witness answered in round 2 is a checkpoint of the log it was asked about
		// (with two logs, "another log's checkpoint" as log 1's first-round answer IS a checkpoint of log 0, and vice versa)
		legit := 0
		for i := range w.Logs {
			if j := (i + 1) % len(w.Logs); len(w.Logs) == 2 && j < len(r.kinds) && r.kinds[j] == "other_log" {
				legit++
			}
		}
		if len(r.reqs2) > legit {
			add("invalid_checkpoint_pushed", "other_logs_checkpoint_in_a_later_round", fmt.Sprintf("second round: the witness answered every log's question with another log's first-round answer (answers %v), yet %d request(s) went out where at most %d can be justified, the first: %s %s with body %s", r.kinds, len(r.reqs2), legit, r.reqs2[0].Method, r.reqs2[0].Path, short(r.reqs2[0].Body)))
		}
		if r.err2 == nil && legit < len(w.Logs) {
			add("error_count_wrong", "nil_in_a_later_round", "second round: logs were answered with another log's checkpoint, but DistributeOnce returned nil")
		}
		r.wcalls = r.wcalls[:min(len(r.wcalls), len(w.Logs))] // the checks below are about the first round
	}
	// every log is asked for, once, in order, whatever happened before
	if len(r.wcalls) != len(w.Logs) {
		add("log_skipped_after_failure", "witness_calls", fmt.Sprintf("%d logs configured, the witness was asked %d times (answers %v, network %v)", len(w.Logs), len(r.wcalls), r.kinds, r.net))
	} else {
		for i, ld := range w.Logs {
			if r.wcalls[i] != ld.ID {
				add("put_path_wrong", "witness_asked_for_wrong_id", fmt.Sprintf("log %d: the witness was asked for ID %q, the log's ID is %q", i, r.wcalls[i], ld.ID))
			}
		}
	}
	failures, either := 0, 0
	nput := 0
	for i, ld := range w.Logs {
		kind := "valid"
		if i < len(r.kinds) {
			kind = r.kinds[i]
		}
		valid := strings.HasPrefix(kind, "valid")
		var mine []*NetReq
		for _, q := range r.reqs {
			if strings.Contains(q.Path, ld.ID) && !strings.HasPrefix(q.Path, "/redirected") {
				mine = append(mine, q)
			}
		}
		if !valid {
			failures++
			if len(mine) > 0 {
				add("put_for_unverified", kind, fmt.Sprintf("log %d: the witness's answer was %q, yet %s %s was sent", i, kind, mine[0].Method, mine[0].Path))
			}
			continue
		}
		netf := ""
		if nput < len(r.net) {
			netf = r.net[nput]
		}
		nput++
		if strings.HasPrefix(netf, "redirloop") && len(mine) >= 1 {
			mine = mine[:1] // the client follows the loop for a while; the first request is the PUT under test
		}
		if len(mine) != 1 {
			add("log_skipped_after_failure", "put_count", fmt.Sprintf("log %d (answer %s): expected exactly one request naming its ID, saw %d (answers %v, network %v)", i, kind, len(mine), r.kinds, r.net))
			failures++
			continue
		}
		q := mine[0]
		if q.Method != http.MethodPut {
			add("put_path_wrong", "method", fmt.Sprintf("log %d: %s instead of PUT", i, q.Method))
		}
		if q.Host != "distributor.example" {
			add("put_path_wrong", "host", fmt.Sprintf("log %d: sent to host %q", i, q.Host))
		}
		seg := strings.Split(q.Path, "/")
		// /distributor/v0/logs/<id>/byWitness/<name>/checkpoint
		okPath := len(seg) == 8 && seg[1] == "distributor" && seg[2] == "v0" && seg[3] == "logs" && seg[4] == ld.ID && seg[5] == "byWitness" && seg[7] == "checkpoint"
		if okPath {
			name, ok := pctDecode(seg[6])
			okPath = ok && name == r.witName
		}
		if !okPath {
			add("put_path_wrong", "path", fmt.Sprintf("log %d: PUT path %q does not name log ID %s and witness %q", i, q.Path, ld.ID, r.witName))
		}
		if string(q.Body) != string(r.answers[ld.ID]) {
			add("put_body_modified", "body", fmt.Sprintf("log %d: PUT body %s is not the witness's answer %s", i, short(q.Body), short(r.answers[ld.ID])))
		}
		okNet := netf == "" || strings.HasPrefix(netf, "delay")
		if (netf == "redirect:307" || netf == "redirect:308") && p.Cfg.Notes["redirect_target"] == "200" {
			// a method-preserving redirect whose target accepts the PUT: the checkpoint was delivered and answered 200 there;
			// the property does not say which way this counts
			either++
		} else if !okNet {
			failures++
		}
	}
	if either > 0 {
		// the number of failures is only known to lie in [failures, failures+either]
		if r.err == nil && failures > 0 {
			add("error_count_wrong", "nil_mismatch", fmt.Sprintf("at least %d logs failed (answers %v, network %v) but DistributeOnce returned nil", failures, r.kinds, r.net))
		}
		return out
	}
	if (failures > 0) != (r.err != nil) {
		add("error_count_wrong", "nil_mismatch", fmt.Sprintf("%d logs failed (answers %v, network %v) but DistributeOnce returned %v", failures, r.kinds, r.net, r.err))
	} else if r.err != nil {
		if m := reOutOf.FindStringSubmatch(r.err.Error()); m != nil {
			if m[1] != fmt.Sprint(failures) || m[2] != fmt.Sprint(len(w.Logs)) {
				add("error_count_wrong", "count", fmt.Sprintf("%d of %d logs failed (answers %v, network %v) but the error says %q", failures, len(w.Logs), r.kinds, r.net, r.err))
			}
		}
	}
	return out
}

func init() {
	_ = url.PathEscape
	register(&Scenario{
		Prop:  "C15",
		Level: "exploration",
		Rule:  "rest.Distributor.DistributeOnce over 1..6 logs on the fake clock; per log the (stub) witness answers one of {valid, valid with extra lines, valid and large, missing, error, wrong log key, no witness signature, invalid witness signature, other witness's signature, corrupted, another log's checkpoint, empty, garbage}; the distributor service (behind simnet) answers each PUT with one of {200, 201, 4xx, 5xx, dropped request, dropped response, redirect 301/302/307/308, truncated body, stall past the client timeout, delay}; witness key names incl. characters that need escaping; a third of the runs serve a second round with the same Distributor (each log answered with another log's first-round answer, or exactly the same answers again: nothing refused in one cycle is pushed in the next); oracle on the stub's request log and the returned error; non-trivial = at least one invalid answer or network fault AND at least one valid log in the same cycle; distinct = distinct (answer multiset, network fault multiset) pairs",
		Gen: func(r *Rng, tier string, n uint64) *Plan {
			p := &Plan{Scenario: "dist"}
			nl := r.Range(1, 6)
			p.Cfg = Config{Store: "mem", Dense: 64, WitKeys: []string{Pick(r, "cosig:0", "cosig:0", "ed:0")}}
			key := 0
			for i := 0; i < nl; i++ {
				p.Cfg.Logs = append(p.Cfg.Logs, LogCfg{Origin: fmt.Sprintf("sim.example/dist%d", i), Key: key})
				if !r.Chance(0.3) {
					key++
				}
			}
			var ans, net []string
			for i := 0; i < nl; i++ {
				if r.Chance(0.5) {
					ans = append(ans, Pick(r, "valid", "valid", "valid_extra", "valid_big"))
				} else {
					ans = append(ans, Pick(r, c15Answers...))
				}
				net = append(net, Pick(r, c15Net...))
			}
			notes0 := strings.Join(net, ",")
			_ = notes0
			p.Cfg.Notes = map[string]string{"answers": strings.Join(ans, ","), "net": strings.Join(net, ","),
				"redirect_target": Pick(r, "404", "200"),
				"client_timeout":  Pick(r, "5s", "5s", "none"),
				"witname":         Pick(r, "wit0", "wit0", "witness.example/w1", "w%41", "wit?x#y", "ŵit-ness", "a:b@c", "wit&co=1", "logkey0", "logkey0")} // (the last: the witness key is NAMED like the first log's key - names are labels, keys are told apart by their hashes)
			if p.Cfg.Notes["client_timeout"] == "none" {
				p.Cfg.Notes["net"] = strings.ReplaceAll(p.Cfg.Notes["net"], "stall", "drop") // a stalled peer and no timeout never ends, by definition
			}
			if n%3 == 0 {
				p.Cfg.Extra = map[string]int64{"round2": 1} // the same distributor serves a second round (answers swapped between logs)
				if n%2 == 0 {
					p.Cfg.Extra["round2"] = 2 // ... or exactly the same answers again
				}
			}
			return p
		},
		Run: func(t *testing.T, p *Plan) *Outcome {
			out := &Outcome{Stats: newStats()}
			r := c15Exec(t, p)
			if r.infra != "" {
				out.Infra = []string{r.infra}
				return out
			}
			out.Viol = oracleC15(p, r)
			out.Stats.SimNanos = int64(r.simTime)
			for k, v := range r.fired {
				out.Stats.Fired[k] += v
			}
			nv, nbad := 0, 0
			for i, k := range r.kinds {
				if strings.HasPrefix(k, "valid") {
					nv++
					if r.net[i] != "" {
						nbad++
					}
				} else {
					nbad++
					out.Stats.Fired["witness_answer/"+k]++
				}
			}
			if nv > 0 && nbad > 0 {
				out.Distinct = []string{p.Cfg.Notes["answers"] + "|" + p.Cfg.Notes["net"]}
			}
			out.Events = []string{p.Cfg.Notes["answers"], p.Cfg.Notes["net"], fmt.Sprint(r.err)}
			out.Sample = map[string]any{"answers": r.kinds, "network": r.net, "witness_name": r.witName, "requests": len(r.reqs), "error": fmt.Sprint(r.err)}
			return out
		},
		Components: map[string]string{
			"internal/distribute/rest (Distributor)": "real",
			"internal/config.NewLog, formats/log.ParseCheckpoint, formats/note verifiers, net/http client (timeout, redirects)": "real",
			"witness":             "scripted stub returning the generated answers",
			"distributor service": "stub handler behind the simnet RoundTripper; records every request",
			"clock":               "synctest fake clock (client timeout fires for real)",
		},
		Assumptions: []string{"a valid answer = verifies under the log's key and origin and carries a valid signature by the configured witness key", "the error text is only checked for its 'N out of M' numbers when it has that shape"},
	})
}
