package verifsim

import (
	"bytes"
	"context"
	"errors"
	"fmt"
	"net/http"
	"net/http/httptest"
	"os"
	"path/filepath"
	"sort"
	"strings"
	"testing"
	"time"

	"github.com/anishathalye/porcupine"
	"github.com/transparency-dev/witness/internal/config"
	"github.com/transparency-dev/witness/internal/feeder/bastion"
	"github.com/transparency-dev/witness/omniwitness"
	"golang.org/x/time/rate"
)

// ---------------------------------------------------------------- C02

// authentic reports whether note bytes carry a text the harness signed with the
// key configured for log ld, under ld's origin.
func (w *World) authentic(ld *LogDef, noteBytes []byte) (bool, string) {
	pn, err := ParseNote(noteBytes)
	if err != nil {
		return false, "does not parse as a note"
	}
	if _, ok := w.Signed[ld.KeyIdx][pn.Text]; !ok {
		return false, "text was never signed with the key configured for this log ID"
	}
	if first, _, _ := strings.Cut(pn.Text, "\n"); first != ld.Origin {
		return false, fmt.Sprintf("first line %q is not this ID's configured origin %q", first, ld.Origin)
	}
	return true, ""
}

func oracleC02(res *RunResult) []Violation {
	var out []Violation
	for _, s := range res.Sets {
		ld := res.W.LogByID(s.LogID)
		if ld == nil {
			out = append(out, Violation{Class: "accepted_for_unknown_id", Sig: "accepted_for_unknown_id", OpIdx: s.OpIdx,
				Detail: fmt.Sprintf("a checkpoint was stored under ID %q, which is not configured: %s", s.LogID, short(s.Bytes))})
			continue
		}
		if ok, why := res.W.authentic(ld, s.Bytes); !ok {
			cls := "accepted_unsigned_text"
			if strings.HasPrefix(why, "first line") {
				cls = "accepted_wrong_origin"
			}
			how := ""
			for _, r := range res.Hist {
				if r.Idx == s.OpIdx && r.Req != nil {
					how = r.Req.Desc
				}
			}
			out = append(out, Violation{Class: cls, Sig: cls, OpIdx: s.OpIdx,
				Detail: fmt.Sprintf("stored for log %d (%s): %s; request: %s; bytes: %s", ld.Idx, ld.Origin, why, how, short(s.Bytes))})
		}
	}
	for _, r := range res.Hist {
		if r.Op.K != "update" || r.Req == nil {
			continue
		}
		if !r.Req.Known {
			if r.Class == "accept" || len(r.Out) > 0 {
				out = append(out, Violation{Class: "accepted_for_unknown_id", Sig: "accepted_for_unknown_id/return", OpIdx: r.Idx,
					Detail: fmt.Sprintf("update for unknown ID %q returned class=%s bytes=%s", r.Req.LogID, r.Class, short(r.Out))})
			}
			if len(r.Seams) > 0 {
				out = append(out, Violation{Class: "storage_touched_for_unknown_id", Sig: "storage_touched_for_unknown_id", OpIdx: r.Idx,
					Detail: fmt.Sprintf("update for unknown ID %q made storage calls %v", r.Req.LogID, r.Seams)})
			}
			continue
		}
		if len(r.Out) > 0 {
			ld := res.W.LogByID(r.Req.LogID)
			if ok, why := res.W.authentic(ld, r.Out); !ok {
				cls := "accepted_unsigned_text"
				if strings.HasPrefix(why, "first line") {
					cls = "accepted_wrong_origin"
				}
				out = append(out, Violation{Class: cls, Sig: cls + "/return", OpIdx: r.Idx,
					Detail: fmt.Sprintf("returned for log %d (class %s): %s; request: %s; bytes: %s", ld.Idx, r.Class, why, r.Req.Desc, short(r.Out))})
			}
		}
		if r.Class == "accept" && r.Req.SigValid == 0 {
			out = append(out, Violation{Class: "accepted_unsigned_text", Sig: "accepted_unsigned_text/by_construction", OpIdx: r.Idx,
				Detail: fmt.Sprintf("a submission built without a valid signature by this ID's key and origin was accepted: %s", r.Req.Desc)})
		}
	}
	return out
}

func init() {
	register(&Scenario{
		Prop:  "C02",
		Level: "exploration",
		Rule:  "witness configurations of 1..5 logs incl. pairs sharing one key under different origins, origins shaped like shards of one log (<key name> - <number>) and key pairs with colliding 32-bit IDs; valid checkpoints pushed through byzantine mutators (bit flips, truncations, line edits, origin rewrites, signature-block edits, foreign-key and other-log lines, key-hash forgeries, cross-log replays both ways, unknown IDs), sequentially and with valid and invalid submissions racing under the seeded scheduler; invariant after every step and on every return; non-trivial = the run submitted at least one forged/replayed checkpoint to a witness that had accepted something; distinct = distinct (mutation kind, state class, verdict, shared-key?) tuples",
		Gen: func(r *Rng, tier string, n uint64) *Plan {
			pf := Profile{MaxLogs: 5, ShareKeys: true, MinOps: 3, MaxOps: 16, Adversarial: 0.65, Mutations: 0.8, BigSizes: false, Reads: 0.02}
			p := &Plan{Scenario: "W"}
			p.Cfg = genConfig(r, pf)
			p.Ops = genHistory(r, pf, &p.Cfg)
			if n%3 == 1 {
				makeConcurrent(r, p)
			}
			if n%7 == 3 {
				p.Cfg.Extra = map[string]int64{"collide": 1} // two configured keys with one 32-bit key ID
			}
			if n%7 == 2 {
				p.Cfg.Extra = map[string]int64{"samename": 1} // every configured key under one key name, told apart by key material only
			}
			if n%7 == 6 && len(p.Cfg.Logs) >= 2 {
				// two logs on one key whose origins differ by a trailing slash only
				p.Cfg.Logs[1].Origin, p.Cfg.Logs[1].Key = p.Cfg.Logs[0].Origin+"/", p.Cfg.Logs[0].Key
			}
			if n%7 == 5 {
				// origins shaped like the shards of one log: "<key name> - <shard number>" (several shards may share the key)
				for i := range p.Cfg.Logs {
					p.Cfg.Logs[i].Origin = fmt.Sprintf("logkey%d - %d", p.Cfg.Logs[i].Key, 2605736670972794746+int64(i))
				}
			}
			return p
		},
		Run: func(t *testing.T, p *Plan) *Outcome {
			res, out := baseOutcome(t, p, false)
			if len(out.Infra) > 0 {
				return out
			}
			out.Viol = append(out.Viol, oracleC02(res)...)
			shared := false
			seen := map[int]bool{}
			for _, l := range p.Cfg.Logs {
				if seen[l.Key] {
					shared = true
				}
				seen[l.Key] = true
			}
			for _, r := range res.Hist {
				if r.Op.K == "update" && r.Req.SigValid != 1 || (r.Req != nil && !r.Req.Known) {
					out.Distinct = append(out.Distinct, fmt.Sprintf("%s/%v/%s/%v/%s", r.Op.M, r.StBefore.Has, r.Class, shared, p.Cfg.Seam))
					out.Stats.Probes["forged:"+r.Op.M]++
				}
			}
			out.Sample = histSample(p, res)
			return out
		},
		Components:  engineWComponents,
		Assumptions: []string{"Ed25519 is unforgeable: a text the harness never signed with a key cannot verify under it", "the set of texts signed per key is recorded by the harness's own signer"},
	})
}

// ---------------------------------------------------------------- C04

func (w *World) checkCosigned(ld *LogDef, wantText string, noteBytes []byte, tLo, tHi time.Time, checkTime bool) (cls, detail string) {
	pn, err := ParseNote(noteBytes)
	if err != nil {
		return "text_modified", "result does not parse as a note"
	}
	if pn.Text != wantText {
		return "text_modified", fmt.Sprintf("text %q is not the submitted text %q", pn.Text, wantText)
	}
	logSigs := 0
	for _, s := range pn.Sigs {
		if ld.Key.VerifyEd25519(pn.Text, s) {
			logSigs++
		}
	}
	if logSigs == 0 {
		return "log_sig_missing", "no valid signature by the log key"
	}
	for _, wk := range w.WitKeys {
		alg := byte(algEd25519)
		if wk.Cosig {
			alg = algCosigV1
		}
		n, valid := 0, 0
		for _, s := range pn.Sigs {
			if s.Name != wk.Key.Name || s.Hash != wk.Key.KeyHash(alg) {
				continue
			}
			n++
			if wk.Cosig {
				ok, ts := wk.Key.VerifyCosigV1(pn.Text, s)
				if ok {
					valid++
					if checkTime && (int64(ts) < tLo.Unix() || int64(ts) > tHi.Unix()) {
						return "timestamp_outside_call", fmt.Sprintf("cosignature/v1 by %s carries time %d, the update call ran from %d to %d", wk.Key.Name, ts, tLo.Unix(), tHi.Unix())
					}
				}
			} else if wk.Key.VerifyEd25519(pn.Text, s) {
				valid++
			}
		}
		kind := "ed25519"
		if wk.Cosig {
			kind = "cosignature/v1"
		}
		if n != 1 {
			return "witness_sig_count", fmt.Sprintf("%d lines for witness key %s (%s), want exactly 1", n, wk.Key.Name, kind)
		}
		if valid != 1 {
			return "witness_sig_invalid", fmt.Sprintf("the line for witness key %s (%s) does not verify over the text", wk.Key.Name, kind)
		}
	}
	return "", ""
}

func oracleC04(res *RunResult) []Violation {
	var out []Violation
	for _, r := range res.Hist {
		if r.Req == nil {
			continue
		}
		ld := res.W.LogByID(r.Req.LogID)
		if ld == nil {
			continue
		}
		switch {
		case r.Op.K == "update" && r.Class == "accept":
			if cls, d := res.W.checkCosigned(ld, r.Req.Text, r.Out, r.TInvoke, r.TReturn, true); cls != "" {
				out = append(out, Violation{Class: cls, Sig: cls, OpIdx: r.Idx, Detail: fmt.Sprintf("accepted update op %d (%s): %s", r.Idx, r.Req.Desc, d)})
				continue
			}
			readFaulted := false
			for _, f := range r.Fired {
				if !strings.Contains(f, "drv.Exec") && !strings.Contains(f, "drv.Commit") && !strings.Contains(f, "drv.Rollback") {
					readFaulted = true
				}
			}
			_ = readFaulted
			if r.RBValid && r.RBErr == nil && string(r.ReadBack) != string(r.Out) {
				out = append(out, Violation{Class: "read_after_write_differs", Sig: "read_after_write_differs", OpIdx: r.Idx,
					Detail: fmt.Sprintf("op %d returned %s but the read right after returned %s", r.Idx, short(r.Out), short(r.ReadBack))})
			}
			if r.RBValid && r.HStatus != 0 && len(r.Fired) == 0 && (r.HStatus != 200 || string(r.HBody) != string(r.Out)) {
				out = append(out, Violation{Class: "read_after_write_differs", Sig: "read_after_write_differs/http", OpIdx: r.Idx,
					Detail: fmt.Sprintf("op %d returned %s but HTTP GET right after answered %d %s", r.Idx, short(r.Out), r.HStatus, short(r.HBody))})
			}
			if r.RBValid && r.RBErr != nil && len(r.Fired) == 0 {
				out = append(out, Violation{Class: "read_after_write_differs", Sig: "read_after_write_failed", OpIdx: r.Idx,
					Detail: fmt.Sprintf("op %d was accepted but the read right after failed: %v", r.Idx, r.RBErr)})
			}
		case r.Op.K == "read" && r.Err == nil:
			st := parseStored(r.Out)
			if st.Bad {
				out = append(out, Violation{Class: "text_modified", Sig: "text_modified/read", OpIdx: r.Idx, Detail: "read returned bytes that do not parse: " + short(r.Out)})
				continue
			}
			if cls, d := res.W.checkCosigned(ld, st.Text, r.Out, time.Time{}, time.Time{}, false); cls != "" {
				out = append(out, Violation{Class: cls, Sig: cls + "/read", OpIdx: r.Idx, Detail: fmt.Sprintf("read op %d: %s", r.Idx, d)})
			}
			if _, ok := res.W.Signed[ld.KeyIdx][st.Text]; !ok {
				out = append(out, Violation{Class: "text_modified", Sig: "text_modified/read_unsigned", OpIdx: r.Idx, Detail: "read returned a text the log never signed: " + short(r.Out)})
			}
		}
	}
	return out
}

func init() {
	register(&Scenario{
		Prop:  "C04",
		Level: "exploration",
		Rule:  "histories of first use, growth and same-size refresh with witness key sets of 1..3 keys (legacy Ed25519 and cosignature/v1, incl. both forms of one key), texts with extension lines, extra known/unknown/duplicate signature lines, stale and fake copies of the witness's own lines (capped below the note format's 100-line limit; the cap's reason is finding F1 under C08), clock jumps of 1 ms..30 days between updates and, under the scheduler, while an update is parked at a storage seam; in a tenth of the runs one witness key is out of order for a window of signing operations (the update must be refused as a whole); results checked with the harness's own note verifier; non-trivial = an accepted refresh or growth after a clock jump was checked; distinct = distinct (path: first/growth/refresh, decoration, key set, jumped-inside?) tuples",
		Gen: func(r *Rng, tier string, n uint64) *Plan {
			pf := Profile{MaxLogs: 2, ShareKeys: true, MinOps: 3, MaxOps: 12, Adversarial: 0.15, Mutations: 0.2, BigSizes: r.Chance(0.2), Reads: 0.15}
			p := &Plan{Scenario: "W"}
			p.Cfg = genConfig(r, pf)
			p.Cfg.ReadBack = true
			ops := genHistory(r, pf, &p.Cfg)
			// more decorations and refreshes than the default mix, and jumps in between
			for i := range ops {
				if ops[i].K != "update" {
					continue
				}
				if ops[i].M == "" && r.Chance(0.45) {
					ops[i].M = Pick(r, decorations...)
					ops[i].MV = r.Uint64()
				}
				if ops[i].M == "xsig_unknown" {
					ops[i].MV = uint64(r.Range(1, 90))
					if r.Chance(0.3) {
						// around the note format's limit of 100 signature lines (the log's own line and the witness's count too)
						ops[i].MV = uint64(r.Range(94, 100))
					}
				}
				if r.Chance(0.3) {
					ops[i].D = 0
				}
			}
			for _, o := range ops {
				if r.Chance(0.4) {
					p.Ops = append(p.Ops, Op{K: "jump", Ms: int64(jumpTable[r.IntN(len(jumpTable))] / time.Millisecond)})
				}
				p.Ops = append(p.Ops, o)
			}
			p.Cfg.Extra = map[string]int64{"http_readback": 1}
			if n%4 == 0 && r.Chance(0.4) {
				// one of the witness's keys is out of order for a while
				p.Cfg.Extra["signfail"], p.Cfg.Extra["signfail_len"], p.Cfg.Extra["signfail_key"] = int64(1+r.IntN(len(ops)+2)), int64(Pick(r, 1, 2, 3, 6, 1000)), int64(r.IntN(3))
			}
			if n%8 == 6 {
				// several writers: judged on what each accepted update returned and on what is served at rest
				p.Cfg.Extra = nil
				var ops []Op
				for _, o := range p.Ops {
					if o.K != "jump" {
						ops = append(ops, o)
					}
				}
				p.Ops = ops
				makeConcurrent(r, p)
				p.Cfg.ReadBack = false // a read "right after" is meaningless with other writers around
				return p
			}
			switch n % 4 {
			case 3:
				// SQLite with faults inside the database driver: an update that is reported accepted must still be what a read returns
				p.Cfg.Store, p.Cfg.Seam, p.Cfg.Clients, p.Cfg.Strategy = "sqlite", "driver", 1, "uniform"
				for occ := 0; occ < 3*len(p.Ops); occ++ {
					for _, call := range []string{"drv.Exec", "drv.Commit", "drv.Rollback"} {
						if r.Chance(0.08) {
							p.Faults = append(p.Faults, Fault{At: fmt.Sprintf("c0:%s#%d", call, occ), Kind: drvKind(r)})
						}
					}
				}
			case 1:
				p.Cfg.Seam, p.Cfg.Clients, p.Cfg.Jumps, p.Cfg.Strategy = "iface", 1, true, "uniform"
				p.Tape = genTape(r, 12*len(p.Ops)+8)
			case 2:
				// a second client only reads, racing the updates under the scheduler: the read right after an accepted
				// update (no other writer) must still return exactly what that update returned
				p.Cfg.Seam, p.Cfg.Clients, p.Cfg.Strategy = "iface", 2, Pick(r, "uniform", "uniform", "hold")
				p.Cfg.Hold = 1
				var ops []Op
				for _, o := range p.Ops {
					if o.K == "jump" {
						continue
					}
					o.C = 0
					ops = append(ops, o)
					if r.Chance(0.7) {
						ops = append(ops, Op{C: 1, K: "read", L: o.L})
					}
				}
				p.Ops = ops
				p.Tape = genTape(r, 12*len(p.Ops)+8)
			}
			return p
		},
		Run: func(t *testing.T, p *Plan) *Outcome {
			res, out := baseOutcome(t, p, false)
			if len(out.Infra) > 0 {
				return out
			}
			out.Viol = append(out.Viol, oracleC04(res)...)
			out.Viol = append(out.Viol, servedIsStored(res)...)
			jumped := false
			for _, r := range res.Hist {
				if r.Op.K == "jump" {
					jumped = true
				}
				if r.Op.K == "update" && r.Class == "accept" {
					path := "first"
					if r.StBefore.Has {
						path = "growth"
						if r.Req.Size == r.StBefore.Size {
							path = "refresh"
						}
					}
					inside := r.TReturn.Sub(r.TInvoke) >= time.Second
					if inside {
						out.Stats.Probes["clock_moved_inside_update"]++
					}
					if jumped && path != "first" {
						out.Distinct = append(out.Distinct, fmt.Sprintf("%s/%s/%s/%v/%s", path, r.Op.M, strings.Join(p.Cfg.WitKeys, "+"), inside, p.Cfg.Store))
					}
					out.Stats.Probes["accepted_"+path]++
				}
			}
			out.Sample = histSample(p, res)
			return out
		},
		Components:  engineWComponents,
		Assumptions: []string{"the fake clock is the only clock (time.Now inside formats/note's cosignature signer reads it; probed)", "timestamps are compared at one-second granularity: floor(invoke) <= T <= floor(return)"},
	})
}

// ---------------------------------------------------------------- C08

func oracleC08(res *RunResult, probeFrom int) []Violation {
	var out []Violation
	for _, r := range res.Hist {
		if r.Idx < probeFrom || r.Op.K != "update" || r.Req == nil || r.Req.NoHonest || len(r.Fired) > 0 {
			continue
		}
		if r.Class == "accept" {
			continue
		}
		lines := 0
		if pn, err := ParseNote(r.StBefore.Raw); err == nil {
			lines = len(pn.Sigs)
		}
		verdict := r.Class
		if verdict == "other" {
			verdict = "other:" + firstWords(r.Err.Error(), 4)
		}
		sig := fmt.Sprintf("honest_update_refused/stored_size0=%v/grow=%v/stored_lines_gt100=%v/verdict=%s",
			r.StBefore.Has && r.StBefore.Size == 0, r.Req.Size > r.StBefore.Size, lines > 100, verdict)
		out = append(out, Violation{Class: "honest_update_refused", Sig: sig, OpIdx: r.Idx,
			Detail: fmt.Sprintf("honest probe refused: stored {%s, %d signature lines}, probe %s -> %v", cpBrief(r.StBefore), lines, r.Req.Desc, r.Err)})
	}
	return out
}

func init() {
	register(&Scenario{
		Prop:  "C08",
		Level: "exploration",
		Rule:  "arbitrary prior histories from the adversarial generator (refused forgeries, extension lines, up to 120 extra signature lines, first checkpoints of size 0, garbage roots), followed by 1..3 honest probes: the log whose history contains the witnessed checkpoint signs (own line only) an equal or larger size, old size = the witness's current size, proof from the reference tree (empty when equal or old is 0); bounded liveness: each probe must be accepted at once; non-trivial = a probe was sent to a witness holding a checkpoint; distinct = distinct (stored-state class, delta class, last prior verdict) tuples",
		Gen: func(r *Rng, tier string, n uint64) *Plan {
			if n%9 == 7 {
				// prior traffic and honest probes through the add-checkpoint endpoint; each probe follows a silence of two token periods
				// (or an hour), after which no limiter of the configured rate can be short of a token - whatever was pushed back before
				q := scenarios["C10"].Gen(r, tier, n)
				q.Scenario = "endpoint-probes"
				q.Faults = nil
				if q.Cfg.Extra["rate"] < 1 {
					q.Cfg.Extra["rate"] = 1
				}
				q.Cfg.Extra["probe_from"] = int64(len(q.Ops))
				for l := range q.Cfg.Logs {
					for k := r.Range(1, 2); k > 0; k-- {
						q.Ops = append(q.Ops, Op{K: "jump", Ms: Pick(r, 2000/q.Cfg.Extra["rate"]+2, 2000/q.Cfg.Extra["rate"]+2, 3600000)}, Op{K: "update", L: l, B: -1, Sz: "rel1", D: uint64(r.Range(0, 6))})
					}
				}
				return q
			}
			pf := Profile{MaxLogs: 2, ShareKeys: true, MinOps: 1, MaxOps: 10, Adversarial: 0.5, Mutations: 0.2, BigSizes: r.Chance(0.3), Reads: 0}
			p := &Plan{Scenario: "W"}
			p.Cfg = genConfig(r, pf)
			ops := genHistory(r, pf, &p.Cfg)
			for i := range ops {
				// keep most histories away from a stored size of 0 (finding F2 makes every later probe fail there)
				if ops[i].K == "update" && ops[i].Sz == "" && !r.Chance(0.03) {
					ops[i].Sz = "rel1"
				}
				if ops[i].K == "update" && (ops[i].Sz == "abs" || ops[i].Sz == "back") && !r.Chance(0.1) {
					ops[i].Sz = "rel1"
				}
				if ops[i].K == "update" && ops[i].M == "xsig_unknown" {
					ops[i].MV = uint64(Pick(r, 1, 2, 5, 20, 50, 90, 96, 97, 98, 120))
				}
				if i == 0 && r.Chance(0.04) {
					ops[i] = Op{K: "update", L: ops[i].L, Sz: "abs", D: 0, Old: "zero", P: "empty"} // first checkpoint of size 0
				}
				if ops[i].K == "update" && r.Chance(0.04) {
					ops[i].M, ops[i].MV = "xsig_unknown", uint64(Pick(r, 90, 95, 96, 97, 98, 99, 100))
				}
				if ops[i].K == "update" && (ops[i].M == "" || ops[i].M == "ext") && r.Chance(0.12) {
					// notes whose size sits just below a power of two (a size cap applied to the submitted note is
					// then exceeded by the cosigned one the witness stores)
					ops[i].M, ops[i].MV = "pad_to", uint64(Pick(r, 1024, 2048, 4096, 8192, 16384, 32768, 65536)-r.IntN(320))
				}
			}
			p.Ops = ops
			p.Cfg.Extra = map[string]int64{"probe_from": int64(len(ops))}
			if n%3 == 2 {
				// "refused" includes refused because storage failed: faults during the prior history only, probes fault-free
				p.Cfg.Extra["tail_from"] = int64(len(ops))
				p.Cfg.Seam, p.Cfg.Clients, p.Cfg.Strategy = "iface", 1, "uniform"
				if p.Cfg.Store == "sqlite" && r.Bool() {
					p.Cfg.Seam = "driver"
					for occ := 0; occ < 3*len(ops); occ++ {
						for _, call := range []string{"drv.Begin", "drv.Query", "drv.Next", "drv.Exec", "drv.Commit", "drv.Rollback"} {
							if r.Chance(0.06) {
								p.Faults = append(p.Faults, Fault{At: fmt.Sprintf("c0:%s#%d", call, occ), Kind: drvKind(r)})
							}
						}
					}
				} else {
					addFaults(r, p, 0.1)
				}
			}
			if n%8 == 5 {
				// the witness is restarted between the prior history and the probes, and its clock was set back in between
				// (every simulated run starts at the same instant; time passes during the prior history)
				p.Cfg.Store, p.Cfg.Seam, p.Cfg.Clients = "sqlite", "none", 1
				p.Faults = nil
				delete(p.Cfg.Extra, "tail_from")
				p.Cfg.Extra["clockback"] = 1
				var withTime []Op
				for _, o := range ops {
					withTime = append(withTime, Op{K: "jump", Ms: int64(Pick(r, 1, 999, 1000, 1500, 60000, 3600000, 86400000))}, o)
				}
				p.Ops = withTime
				p.Cfg.Extra["probe_from"] = int64(len(withTime))
			}
			var rehearsals, probes []Op
			for l := range p.Cfg.Logs {
				k := r.Range(1, 3)
				for i := 0; i < k; i++ {
					d := uint64(0)
					switch r.IntN(5) {
					case 0:
					case 1, 2:
						d = uint64(r.Range(1, 40))
					case 3:
						d = uint64(r.Range(1, 1<<16))
					default:
						d = uint64(1) << uint(r.Range(17, 40))
					}
					probe := Op{K: "update", L: l, B: -1, D: d}
					if r.Chance(0.3) {
						probe.M, probe.MV = "ext", r.Uint64() // an honest log may put extension lines after the root hash; still only its own signature line
						if r.Chance(0.4) {
							// ... lots of them: a note sized just below a power of two (a cap that fits the submitted note may not fit the cosigned one)
							probe.M, probe.MV = "pad_to", uint64(Pick(r, 1024, 2048, 4096, 8192, 16384, 32768, 65536)-r.IntN(320))
						}
					}
					if i == 0 && len(p.Cfg.Logs) > 1 && r.Chance(0.3) {
						// the very bytes of this probe are first presented under another log's ID (and refused there): whatever the
						// witness remembers about refused bytes must not stand in the way of the log they belong to
						reh := probe
						reh.M, reh.MV = "crosslog", r.Uint64()
						if probe.M != "" {
							probe.M, probe.MV = "", 0
							reh.M, reh.MV = "crosslog", r.Uint64()
						}
						rehearsals = append(rehearsals, reh)
					}
					probes = append(probes, probe)
				}
			}
			p.Ops = append(p.Ops, rehearsals...)
			p.Cfg.Extra["probe_from"] = int64(len(p.Ops))
			if _, ok := p.Cfg.Extra["tail_from"]; ok {
				p.Cfg.Extra["tail_from"] = int64(len(p.Ops))
			}
			p.Ops = append(p.Ops, probes...)
			return p
		},
		Run: func(t *testing.T, p *Plan) *Outcome {
			if p.Scenario == "endpoint-probes" {
				return c08ViaBastion(t, p)
			}
			if p.Cfg.Extra["clockback"] != 0 {
				return c08ClockBack(t, p)
			}
			res, out := baseOutcome(t, p, true)
			if len(out.Infra) > 0 {
				return out
			}
			from := int(p.Cfg.Extra["probe_from"])
			out.Viol = append(out.Viol, oracleC08(res, from)...)
			last := "none"
			for _, r := range res.Hist {
				if r.Op.K != "update" {
					continue
				}
				if r.Idx < from {
					last = r.Class
					continue
				}
				if r.StBefore.Has && !r.Req.NoHonest {
					dc := "0"
					d := r.Req.Size - r.StBefore.Size
					switch {
					case d == 0:
					case d < 64:
						dc = "small"
					case d < 1<<16:
						dc = "mid"
					default:
						dc = "big"
					}
					stc := "s"
					if r.StBefore.Size == 0 {
						stc = "s0"
					}
					out.Distinct = append(out.Distinct, stc+"/"+dc+"/"+last+"/"+p.Cfg.Store)
					out.Stats.Probes["honest_probes"]++
				}
				if r.Req.NoHonest {
					out.Stats.Probes["no_honest_probe_possible(garbage root stored)"]++
				}
			}
			out.Sample = histSample(p, res)
			return out
		},
		Components:  engineWComponents,
		Assumptions: []string{"'honest log' = a branch of the harness's forking log whose root at the stored size equals the stored root; if the witness holds a garbage root no honest probe exists and none is sent"},
	})
}

// c08ClockBack runs the prior history on a file-backed store, then the probes on a witness restarted on that file in a
// fresh simulation whose clock starts again at the initial instant, i.e. earlier than the times the stored cosignatures carry.
func c08ClockBack(t *testing.T, p *Plan) *Outcome {
	dir, err := scratchDir("c08")
	if err != nil {
		return &Outcome{Stats: newStats(), Infra: []string{err.Error()}}
	}
	defer os.RemoveAll(dir)
	from := int(p.Cfg.Extra["probe_from"])
	if from > len(p.Ops) {
		from = len(p.Ops)
	}
	q1 := p.Clone()
	q1.Cfg.DBPath = filepath.Join(dir, "w.db")
	q1.Ops = append([]Op{}, p.Ops[:from]...)
	_, out1 := baseOutcome(t, q1, true)
	if len(out1.Infra) > 0 || len(out1.Viol) > 0 {
		return out1
	}
	q2 := p.Clone()
	q2.Cfg.DBPath = q1.Cfg.DBPath
	q2.Ops = append([]Op{}, p.Ops[from:]...)
	res, out := baseOutcome(t, q2, true)
	out.Events = append(out1.Events, out.Events...)
	out.Stats.SimNanos += out1.Stats.SimNanos
	if len(out.Infra) > 0 {
		return out
	}
	out.Viol = append(out.Viol, oracleC08(res, 0)...)
	for _, r := range res.Hist {
		if r.Op.K == "update" && r.StBefore.Has && !r.Req.NoHonest {
			out.Stats.Probes["honest_probes_after_restart_with_clock_set_back"]++
			out.Distinct = append(out.Distinct, "clockback/"+r.Class)
		}
	}
	out.Stats.Fired["restart_with_clock_set_back"]++
	return out
}

// ---------------------------------------------------------------- C05

type linIn struct {
	Kind       string // update | read
	LogID      string
	Req        *Request
	Overlapped bool // another write to the same log overlapped this operation
}
type linOut struct {
	Class    string
	Out      string
	NotFound bool
}
type linState struct {
	St Stored
}

func linModel() porcupine.Model {
	return porcupine.Model{
		Partition: func(history []porcupine.Operation) [][]porcupine.Operation {
			m := map[string][]porcupine.Operation{}
			var keys []string
			for _, op := range history {
				id := op.Input.(linIn).LogID
				if _, ok := m[id]; !ok {
					keys = append(keys, id)
				}
				m[id] = append(m[id], op)
			}
			sort.Strings(keys)
			var out [][]porcupine.Operation
			for _, k := range keys {
				out = append(out, m[k])
			}
			return out
		},
		Init: func() interface{} { return linState{} },
		Step: func(state, input, output interface{}) (bool, interface{}) {
			st := state.(linState)
			in := input.(linIn)
			o := output.(linOut)
			if in.Kind == "read" {
				if !st.St.Has {
					return o.NotFound, st
				}
				return !o.NotFound && o.Class == "ok" && o.Out == string(st.St.Raw), st
			}
			r := in.Req
			want := modelVerdict(r.Known, r.SigValid, st.St, r.Size, r.Root, r.Old, r.Proof)
			if o.Class == "other" {
				// an error that is none of the protocol's sentinels: either a refusal whose identity the
				// protocol leaves open, or a storage error with no effect - the latter only under contention
				return in.Overlapped || want == "refuse" || want == "any", st
			}
			apply := func() linState {
				ns := parseStored([]byte(o.Out))
				return linState{St: ns}
			}
			switch want {
			case "any":
				if o.Class == "accept" {
					return true, apply()
				}
				return true, st
			case "refuse":
				return o.Class != "accept", st
			case "accept":
				if o.Class != "accept" {
					return false, st
				}
				ns := apply()
				return !ns.St.Bad && ns.St.Size == r.Size && string(ns.St.Root) == string(r.Root), ns
			default:
				if o.Class != want {
					return false, st
				}
				switch want {
				case "old_too_large", "stale", "root_mismatch", "bad_proof":
					return o.Out == string(st.St.Raw), st
				}
				return true, st
			}
		},
		Equal: func(a, b interface{}) bool {
			x, y := a.(linState), b.(linState)
			return x.St.Has == y.St.Has && string(x.St.Raw) == string(y.St.Raw)
		},
	}
}

func overlaps(a, b *OpRec) bool { return a.Invoke < b.Return && b.Invoke < a.Return }

func oracleC05(res *RunResult, stats *Stats) []Violation {
	var out []Violation
	long := len(res.Hist) > 400 // long histories: the direct invariants only (they are linear in the history)
	// which updates overlapped another write to the same log (only those may fail with a storage error)
	overlapped := map[int]bool{}
	for _, r := range res.Hist {
		if r.Op.K != "update" || long {
			continue
		}
		for _, q := range res.Hist {
			if q != r && q.Op.K == "update" && q.Req.LogID == r.Req.LogID && overlaps(r, q) {
				overlapped[r.Idx] = true
			}
		}
		if r.Class == "other" && overlapped[r.Idx] {
			stats.Probes["non_sentinel_error_under_contention"]++
		}
	}
	// (b) direct invariants on the commit sequence
	byLog := setsByLog(res)
	recOf := map[int]*OpRec{}
	for _, r := range res.Hist {
		recOf[r.Idx] = r
	}
	for id, seq := range byLog {
		ld := res.W.LogByID(id)
		if ld == nil {
			continue
		}
		var prev Stored
		for i, s := range seq {
			cur := parseStored(s.Bytes)
			r := recOf[s.OpIdx]
			if i > 0 && !cur.Bad && !prev.Bad {
				if cur.Size < prev.Size {
					out = append(out, Violation{Class: "lost_update", Sig: "size_regressed_in_store", OpIdx: s.OpIdx,
						Detail: fmt.Sprintf("log %d: stored size went from %d to %d", ld.Idx, prev.Size, cur.Size)})
				} else if ok, why := res.W.Compatible(ld.Idx, prev.Size, prev.Root, cur.Size, cur.Root); !ok {
					out = append(out, Violation{Class: "accepted_on_stale_state", Sig: "accepted_on_stale_state/" + why, OpIdx: s.OpIdx,
						Detail: fmt.Sprintf("log %d: at its commit, op %d's checkpoint {%s} was inconsistent with the then-current {%s}", ld.Idx, s.OpIdx, cpBrief(cur), cpBrief(prev))})
				}
			}
			if r != nil && r.Req != nil && !cur.Bad {
				curSize := uint64(0)
				if i > 0 && !prev.Bad {
					curSize = prev.Size
				}
				if i > 0 && r.Req.Old != curSize {
					out = append(out, Violation{Class: "accepted_on_stale_state", Sig: "accepted_on_stale_state/old_size", OpIdx: s.OpIdx,
						Detail: fmt.Sprintf("log %d: op %d was accepted with old size %d while the stored size at its commit was %d", ld.Idx, s.OpIdx, r.Req.Old, curSize)})
				}
			}
			prev = cur
		}
	}
	committed := map[int]bool{}
	for _, s := range res.Sets {
		committed[s.OpIdx] = true
	}
	// nothing the store took is lost: at the end each log holds the last write the store reported as done
	if fs := res.FinalSnap; fs != nil && fs.Err == "" {
		for id, seq := range byLog {
			if ld := res.W.LogByID(id); ld != nil && fs.CP[id] != string(seq[len(seq)-1].Bytes) {
				out = append(out, Violation{Class: "lost_update", Sig: "final_state_is_not_last_write", OpIdx: seq[len(seq)-1].OpIdx,
					Detail: fmt.Sprintf("log %d: the last write the store reported as done (op %d) was {%s}, but at the end the store holds {%s}", ld.Idx, seq[len(seq)-1].OpIdx, cpBrief(parseStored(seq[len(seq)-1].Bytes)), cpBrief(parseStored([]byte(fs.CP[id]))))})
			}
		}
	}
	for _, r := range res.Hist {
		if r.Op.K == "update" && r.Class == "accept" {
			if !committed[r.Idx] {
				out = append(out, Violation{Class: "lost_update", Sig: "accepted_without_commit", OpIdx: r.Idx, Detail: fmt.Sprintf("op %d reported accepted but no write reached the store", r.Idx)})
			}
		}
	}
	// readers never see a log shrink (real-time order)
	for _, a := range res.Hist {
		if a.Op.K != "read" || a.Err != nil || long {
			continue
		}
		for _, b := range res.Hist {
			if b.Op.K != "read" || b.Err != nil || b.Req.LogID != a.Req.LogID || !(a.Return <= b.Invoke) {
				continue
			}
			sa, sb := parseStored(a.Out), parseStored(b.Out)
			if !sa.Bad && !sb.Bad && sb.Size < sa.Size {
				out = append(out, Violation{Class: "size_regressed_for_reader", Sig: "size_regressed_for_reader", OpIdx: b.Idx,
					Detail: fmt.Sprintf("read op %d saw size %d, the later read op %d saw %d", a.Idx, sa.Size, b.Idx, sb.Size)})
			}
		}
	}
	if len(out) > 0 || long {
		return out
	}
	// (a) linearizability against the sequential model
	var ops []porcupine.Operation
	for _, r := range res.Hist {
		if !r.Done || r.Return < 0 {
			continue
		}
		cid := clientIndex(r.Task)
		switch r.Op.K {
		case "update":
			ops = append(ops, porcupine.Operation{ClientId: cid, Input: linIn{Kind: "update", LogID: r.Req.LogID, Req: r.Req, Overlapped: overlapped[r.Idx] || len(r.Fired) > 0}, // an injected storage fault, like contention, may fail the update with no effect
				Call: int64(r.Invoke), Output: linOut{Class: r.Class, Out: string(r.Out)}, Return: int64(r.Return)})
		case "read":
			if r.Err != nil && len(r.Fired) > 0 {
				continue // a read that failed on an injected storage fault returned nothing and changed nothing
			}
			o := linOut{Class: "ok", Out: string(r.Out)}
			if r.Err != nil {
				o = linOut{Class: "err", NotFound: isNotFound(r.Err)}
			}
			ops = append(ops, porcupine.Operation{ClientId: cid, Input: linIn{Kind: "read", LogID: r.Req.LogID}, Call: int64(r.Invoke), Output: o, Return: int64(r.Return)})
		}
	}
	switch porcupine.CheckOperationsTimeout(linModel(), ops, 20*time.Second) {
	case porcupine.Illegal:
		var hs []string
		for _, r := range res.Hist {
			hs = append(hs, fmt.Sprintf("[%d..%d] %s %s", r.Invoke, r.Return, r.Task, opSummary(r)))
		}
		out = append(out, Violation{Class: "not_linearizable", Sig: "not_linearizable", Detail: "no sequential order compatible with real time explains: " + strings.Join(hs, "; ")})
	case porcupine.Unknown:
		stats.Inconclusive++
	}
	return out
}

// canonical two-client shapes whose interleavings are counted in the evidence
func canonShape(k int) []Op {
	switch k {
	case 0: // conflicting first use
		return []Op{{C: 0, K: "update", L: 0, B: 0, D: 5}, {C: 1, K: "update", L: 0, B: 1, D: 5}}
	case 1: // forks from the same old size (after a first use by client 0)
		return []Op{{C: 0, K: "update", L: 0, D: 4}, {C: 0, K: "update", L: 0, B: 0, D: 3}, {C: 1, K: "update", L: 0, B: 1, Sz: "abs", D: 7, Old: "abs", OldV: 4, P: "honest_old"}}
	default: // growth vs refresh
		return []Op{{C: 0, K: "update", L: 0, D: 4}, {C: 0, K: "update", L: 0, D: 3}, {C: 1, K: "update", L: 0, Sz: "abs", D: 4, Old: "abs", OldV: 4, P: "empty"}}
	}
}

func init() {
	register(&Scenario{
		Prop:  "C05",
		Level: "exploration",
		Rule:  "2..4 harness clients issue 1..3 update/read requests each (conflicting first use, forks from the same old size, growth vs refresh, different logs) against the real witness on the in-memory store and on file-backed SQLite with the production one-connection pool; the seeded quiescence scheduler (uniform, PCT with <=3 change points, hold-one) decides every interleaving at storage-operation granularity; invoke/return are stamped with scheduler event numbers; oracle = porcupine linearizability against the sequential witness model partitioned by log (Illegal = violation, Unknown = inconclusive, counted) plus direct invariants on the commit sequence (no regress, consistent with the state current at commit, old size current at commit, nothing lost, readers monotone); canonical 2-client shapes are run under uniformly random tapes and their distinct interleavings are counted per shape (distinct_by_tag); non-trivial = at least two operations on the same log overlapped; distinct = distinct (event log hash, verdict vector)",
		Gen: func(r *Rng, tier string, n uint64) *Plan {
			p := &Plan{Scenario: "W"}
			if n%4 == 0 {
				k := int(n/4) % 3
				p.Cfg = Config{Store: Pick(r, "mem", "mem", "sqlite"), Seam: "iface", Clients: 2, Strategy: "uniform", Dense: 64, WitKeys: []string{"ed:0", "cosig:0"},
					Logs: []LogCfg{{Origin: "sim.example/canon", Key: 0, Forks: []ForkCfg{{Parent: 0, At: 2}}}}, Extra: map[string]int64{"canon": int64(k)}}
				p.Ops = canonShape(k)
				p.Tape = genTape(r, 40)
				return p
			}
			pf := Profile{MaxLogs: 2, ShareKeys: true, MinOps: 2, MaxOps: 9, Adversarial: 0.45, Mutations: 0.05, BigSizes: false, Reads: 0.2}
			p.Cfg = genConfig(r, pf)
			// start from a stored checkpoint half of the time so that forks race from the same old size
			if r.Chance(0.5) {
				for l := range p.Cfg.Logs {
					p.Ops = append(p.Ops, Op{C: 0, K: "update", L: l, D: uint64(r.Range(1, 9))})
				}
			}
			pre := len(p.Ops)
			p.Ops = append(p.Ops, genHistory(r, pf, &p.Cfg)...)
			makeConcurrent(r, p)
			for i := 0; i < pre; i++ {
				p.Ops[i].C = 0
			}
			if n%8 == 3 {
				// updates and reads through the adapter Main puts in front of the witness (what feeders and the distributor see)
				p.Cfg.Extra = map[string]int64{"via_adapter": 1}
			}
			if n%8 == 7 {
				// storage errors instead of contention: one client on SQLite with faults inside the database driver; an update the
				// store failed must have no effect, one it acknowledged must not be lost
				// (half of these runs keep two clients: contention AND storage errors - what one client does about a failed commit
				// happens while the other one waits for the connection)
				nc := 1 + r.IntN(2)
				p.Cfg.Store, p.Cfg.Seam, p.Cfg.Clients, p.Cfg.Strategy = "sqlite", "driver", nc, "uniform"
				for i := range p.Ops {
					p.Ops[i].C = p.Ops[i].C % nc
				}
				for occ := 0; occ < 2*len(p.Ops); occ++ {
					for _, call := range []string{"drv.Begin", "drv.Query", "drv.Next", "drv.Exec", "drv.Commit", "drv.Commit", "drv.Rollback"} {
						for c := 0; c < nc; c++ {
							if r.Chance(0.07) {
								p.Faults = append(p.Faults, Fault{At: fmt.Sprintf("c%d:%s#%d", c, call, occ), Kind: drvKind(r)})
							}
						}
					}
				}
			}
			// racing clients that computed their requests from the same old size
			if r.Chance(0.5) && pre > 0 {
				st := p.Ops[0].D
				for i := pre; i < len(p.Ops); i++ {
					if p.Ops[i].K == "update" && p.Ops[i].L == 0 && p.Ops[i].Sz == "" && r.Chance(0.6) {
						p.Ops[i].Sz, p.Ops[i].D = "abs", st+p.Ops[i].D
						p.Ops[i].Old, p.Ops[i].OldV = "abs", st
						if p.Ops[i].P == "" || p.Ops[i].P == "honest" {
							p.Ops[i].P = "honest_old"
						}
					}
				}
			}
			return p
		},
		Run: func(t *testing.T, p *Plan) *Outcome {
			res, out := baseOutcome(t, p, false)
			if len(out.Infra) > 0 {
				return out
			}
			out.Viol = append(out.Viol, oracleC05(res, &out.Stats)...)
			for _, v := range servedIsStored(res) {
				v.Class, v.Sig = "stale_read", "stale_read/"+v.Sig
				out.Viol = append(out.Viol, v)
			}
			overl := false
			for i, a := range res.Hist {
				for _, b := range res.Hist[i+1:] {
					if a.Req != nil && b.Req != nil && a.Req.LogID == b.Req.LogID && a.Task != b.Task && overlaps(a, b) {
						overl = true
					}
				}
			}
			var vv []string
			for _, r := range res.Hist {
				vv = append(vv, r.Class)
			}
			if overl {
				out.Distinct = []string{res.SchedHash + strings.Join(vv, ",")}
				out.Stats.Probes["runs_with_overlapping_ops_on_one_log"]++
			}
			if k, ok := p.Cfg.Extra["canon"]; ok {
				out.Tagged = map[string][]string{fmt.Sprintf("canon%d/%s interleavings", k, p.Cfg.Store): {res.SchedHash}}
			}
			for _, s := range res.Sets {
				_ = s
			}
			out.Sample = histSample(p, res)
			return out
		},
		Components:  engineWComponents,
		Assumptions: []string{"every storage call of the witness goes through the wrapped LogStatePersistence, so the scheduler owns every interleaving that matters; segments between two storage calls touch only task-private state", "on SQLite at most one task is allowed to wait in database/sql's pool at a time (its waiter choice is random and would not replay); who waits is the scheduler's choice", "the free-running -race stress named in the quantifier is a separate, non-replayable extra (./check C05 race), not part of this evidence"},
	})
}

// ---------------------------------------------------------------- C12

func perLogVerdicts(res *RunResult) map[string][]string {
	m := map[string][]string{}
	for _, r := range res.Hist {
		if r.Op.K == "update" && r.Req != nil {
			m[r.Req.LogID] = append(m[r.Req.LogID], r.Class)
		}
	}
	return m
}

func init() {
	register(&Scenario{
		Prop:  "C12",
		Level: "exploration",
		Rule:  "2..5 logs (some sharing a key) with independently generated per-log histories incl. cross-log replays; one harness client per log, interleaved by the seeded scheduler at storage-operation granularity; then each log's history is replayed alone in a fresh world with the same keys; per log the verdict sequence and the final stored bytes must be identical, and nothing may be stored under another ID; also generated configurations with duplicate origins (same or different keys) must be refused by the real config loader; non-trivial = at least two logs had accepted updates interleaved; distinct = distinct (event-log hash) of such runs",
		Gen: func(r *Rng, tier string, n uint64) *Plan {
			pf := Profile{MaxLogs: 5, ShareKeys: true, MinOps: 4, MaxOps: 18, Adversarial: 0.45, Mutations: 0.25, BigSizes: false, Reads: 0}
			p := &Plan{Scenario: "W"}
			p.Cfg = genConfig(r, pf)
			for len(p.Cfg.Logs) < 2 {
				p.Cfg = genConfig(r, pf)
			}
			p.Ops = genHistory(r, pf, &p.Cfg)
			for i := range p.Ops {
				if p.Ops[i].M == "prime_other" {
					p.Ops[i].M = "wrongkey"
				}
				if p.Ops[i].M == "crosslog" || p.Ops[i].M == "unknownlog" {
					// keep cross-log replays self-contained: absolute sizes, so the bytes do not depend on another log's state
					p.Ops[i].Sz, p.Ops[i].Old, p.Ops[i].P = "abs", "zero", "empty"
				}
				p.Ops[i].C = opTarget(p.Ops[i], len(p.Cfg.Logs))
			}
			p.Cfg.Seam, p.Cfg.Clients, p.Cfg.Strategy = "iface", len(p.Cfg.Logs), Pick(r, "uniform", "uniform", "hold")
			p.Cfg.Hold = r.IntN(p.Cfg.Clients)
			p.Tape = genTape(r, 8*len(p.Ops)+8)
			if n%3 == 2 {
				p.Cfg.Seam, p.Cfg.Clients = "none", 1 // operation-wise interleaving only
			}
			if n%7 == 4 {
				// storage errors while some log is being served must not reach the others: SQLite, faults inside the database driver
				p.Cfg.Store, p.Cfg.Seam, p.Cfg.Clients, p.Cfg.Strategy = "sqlite", "driver", 1, "uniform"
				for i := range p.Ops {
					p.Ops[i].C = 0
				}
				for occ := 0; occ < 2*len(p.Ops); occ++ {
					for _, call := range []string{"drv.Begin", "drv.Query", "drv.Next", "drv.Exec", "drv.Commit", "drv.Rollback"} {
						if r.Chance(0.03) {
							p.Faults = append(p.Faults, Fault{At: fmt.Sprintf("c0:%s#%d", call, occ), Kind: drvKind(r)})
						}
					}
				}
			}
			return p
		},
		Run: func(t *testing.T, p *Plan) *Outcome {
			faulty := len(p.Faults) > 0
			res, out := baseOutcome(t, p, faulty)
			if len(out.Infra) > 0 {
				return out
			}
			for i := range out.Viol {
				// with storage faults in play: a fault while one log was served has left the whole witness stuck
				out.Viol[i].Class, out.Viol[i].Sig = "log_state_depends_on_other_log", "log_state_depends_on_other_log/"+out.Viol[i].Sig
			}
			if len(out.Viol) > 0 {
				return out
			}
			w := res.W
			// logs whose own requests were hit by a fault are not compared below; all the others must be unaffected
			hit := map[string]bool{}
			for _, r := range res.Hist {
				if len(r.Fired) > 0 && r.Req != nil {
					hit[r.Req.LogID] = true
					out.Stats.Probes["requests_hit_by_storage_fault"]++
				}
			}
			// nothing stored under another ID
			out.Viol = append(out.Viol, filterClass(oracleC02(res), "accepted_wrong_origin", "accepted_for_unknown_id", "accepted_unsigned_text")...)
			for i := range out.Viol {
				out.Viol[i].Class, out.Viol[i].Sig = "stored_under_wrong_id", "stored_under_wrong_id/"+out.Viol[i].Sig
			}
			together := perLogVerdicts(res)
			accepted := 0
			for _, ld := range w.Logs {
				if hit[ld.ID] {
					continue
				}
				// this log's history alone
				q := p.Clone()
				q.Cfg.Seam, q.Cfg.Clients, q.Tape, q.Faults = "none", 1, nil, nil
				q.Ops = nil
				for _, o := range p.Ops {
					tgt := opTarget(o, len(p.Cfg.Logs))
					if o.M == "unknownlog" {
						continue
					}
					if tgt == ld.Idx {
						o.C = 0
						q.Ops = append(q.Ops, o)
					}
				}
				alone, ao := baseOutcome(t, q, false)
				out.Stats.Decisions += ao.Stats.Decisions
				if len(ao.Infra) > 0 {
					out.Infra = append(out.Infra, ao.Infra...)
					return out
				}
				av := perLogVerdicts(alone)[ld.ID]
				tv := together[ld.ID]
				if strings.Join(av, ",") != strings.Join(tv, ",") {
					out.Viol = append(out.Viol, Violation{Class: "log_state_depends_on_other_log", Sig: "log_state_depends_on_other_log/verdicts",
						Detail: fmt.Sprintf("log %d: verdicts interleaved with other logs %v, alone %v", ld.Idx, tv, av)})
					continue
				}
				if string(res.Final[ld.ID].Raw) != string(alone.Final[ld.ID].Raw) {
					out.Viol = append(out.Viol, Violation{Class: "log_state_depends_on_other_log", Sig: "log_state_depends_on_other_log/final",
						Detail: fmt.Sprintf("log %d: final state interleaved {%s} vs alone {%s}", ld.Idx, cpBrief(res.Final[ld.ID]), cpBrief(alone.Final[ld.ID]))})
				}
				if res.FinalSnap != nil && res.FinalSnap.CP[ld.ID] != string(res.Final[ld.ID].Raw) {
					out.Viol = append(out.Viol, Violation{Class: "stored_under_wrong_id", Sig: "stored_under_wrong_id/final_snapshot",
						Detail: fmt.Sprintf("log %d: the store holds %s but the last accepted write for this ID was %s", ld.Idx, short([]byte(res.FinalSnap.CP[ld.ID])), short(res.Final[ld.ID].Raw))})
				}
				if res.Final[ld.ID].Has {
					accepted++
				}
			}
			// duplicate configurations must be refused by the real loader
			dr := NewRng(p.Seed ^ 0x5ca1ab1e)
			cfg := omniwitness.LogConfig{}
			for _, ld := range w.Logs {
				cfg.Logs = append(cfg.Logs, omniwitness.LogInfo{Origin: ld.Origin, PublicKey: ld.Key.VerifierString(), URL: "http://x/", Feeder: omniwitness.None})
			}
			if _, err := cfg.AsLogMap(); err != nil {
				out.Infra = append(out.Infra, "AsLogMap refused a duplicate-free configuration: "+err.Error())
			}
			dup := w.Logs[dr.IntN(len(w.Logs))]
			key := dup.Key
			if dr.Bool() {
				key = w.Stranger
			}
			cfg.Logs = append(cfg.Logs, omniwitness.LogInfo{Origin: dup.Origin, PublicKey: key.VerifierString(), URL: "http://y/", Feeder: omniwitness.None})
			dr.Shuffle(len(cfg.Logs), func(i, j int) { cfg.Logs[i], cfg.Logs[j] = cfg.Logs[j], cfg.Logs[i] })
			if _, err := cfg.AsLogMap(); err == nil {
				out.Viol = append(out.Viol, Violation{Class: "duplicate_config_accepted", Sig: "duplicate_config_accepted", Detail: fmt.Sprintf("a configuration naming origin %q twice was accepted by AsLogMap", dup.Origin)})
			}
			out.Stats.Probes["duplicate_configs_refused"]++
			if p.Seed%16 == 3 {
				// the assembled service refuses it too: Main returns an error instead of serving with one of the two entries
				refused, merr, infra := mainRefusesConfig(t, p, w, cfg)
				if infra != "" {
					out.Infra = append(out.Infra, "Main on a duplicate configuration: "+infra)
				} else if !refused {
					out.Viol = append(out.Viol, Violation{Class: "duplicate_config_accepted", Sig: "duplicate_config_accepted/main", Detail: fmt.Sprintf("omniwitness.Main did not refuse a configuration naming origin %q twice: after 5 simulated seconds it was serving or had returned %v", dup.Origin, merr)})
				}
				out.Stats.Probes["duplicate_configs_refused_by_main"]++
			}
			// one identity everywhere: for origins of unusual but legal shape every loader must file the log under
			// hex(sha256("o:"+origin)) of the origin exactly as written (the first line of its checkpoints)
			odd := []string{" leading blank", "trailing blank ", "tab\tinside", "UPPER/lower", "ünïcödé/log", "a/b/c/d", "two  blanks", "dot.", "x"}
			oo := odd[int(p.Seed%uint64(len(odd)))]
			ocfg := omniwitness.LogConfig{Logs: []omniwitness.LogInfo{{Origin: oo, PublicKey: w.Logs[0].Key.VerifierString(), URL: " http://z.example/ ", Feeder: omniwitness.None}}}
			if om, err := ocfg.AsLogMap(); err != nil {
				out.Infra = append(out.Infra, fmt.Sprintf("AsLogMap refused origin %q: %v", oo, err))
			} else if li, ok := om[LogID(oo)]; !ok || li.Origin != oo {
				out.Viol = append(out.Viol, Violation{Class: "id_disagreement", Sig: "id_disagreement/witness_map", Detail: fmt.Sprintf("AsLogMap files origin %q under %v, not under hex(sha256(\"o:\"+origin)) with that exact origin", oo, mapKeysOf(om))})
			}
			if cl, err := config.NewLog(oo, w.Logs[0].Key.VerifierString(), "http://z.example/"); err != nil {
				out.Infra = append(out.Infra, fmt.Sprintf("config.NewLog refused origin %q: %v", oo, err))
			} else if cl.ID != LogID(oo) || cl.Origin != oo {
				out.Viol = append(out.Viol, Violation{Class: "id_disagreement", Sig: "id_disagreement/config_log", Detail: fmt.Sprintf("config.NewLog(%q) yields ID %s origin %q; the witness map and the bastion endpoint use %s for that origin", oo, cl.ID, cl.Origin, LogID(oo))})
			}
			// ... and the bastion endpoint must hand a submission for that origin to the witness under that same ID, also
			// for origins longer than the buffers line readers use
			for _, bo := range []string{oo, strings.Repeat("o", []int{4095, 4096, 4097, 6000, 12000}[int(p.Seed/16%5)]) + "/long"} {
				cl, err := config.NewLog(bo, w.Logs[0].Key.VerifierString(), "http://z.example/")
				if err != nil {
					continue
				}
				rec := &idRecorder{}
				h := bastion.VerifNewHandler(bastion.Config{Logs: []config.Log{cl}, Limits: bastion.RequestLimits{TotalPerSecond: rate.Limit(1e9)}}, rec)
				root := w.Logs[0].Branches[0].Root(1)
				text := CheckpointText(bo, 1, root[:])
				body := wireBody(0, nil, MakeNote(text, w.Logs[0].Key.SignEd25519(text)))
				rr := httptest.NewRecorder()
				h.ServeHTTP(rr, httptest.NewRequest(http.MethodPost, "/add-checkpoint", bytes.NewReader(body)))
				if len(rec.ids) != 1 || rec.ids[0] != LogID(bo) {
					ob := bo
					if len(ob) > 40 {
						ob = fmt.Sprintf("%s...(%d bytes)", ob[:20], len(bo))
					}
					out.Viol = append(out.Viol, Violation{Class: "id_disagreement", Sig: "id_disagreement/bastion_endpoint", Detail: fmt.Sprintf("a submission for configured origin %q was answered %d and handed to the witness under %v; everyone else files that log under %s", ob, rr.Code, rec.ids, LogID(bo))})
				}
				out.Stats.Probes["bastion_endpoint_identity_probes"]++
			}
			if accepted >= 2 {
				out.Distinct = []string{res.SchedHash}
				out.Stats.Probes["runs_with_2plus_active_logs"]++
			}
			out.Sample = histSample(p, res)
			return out
		},
		Components:  engineWComponents,
		Assumptions: []string{"symbolic operations are resolved against the same log's state only, so a per-log history means the same requests alone as interleaved", "the cross-component identity part (feeders, bastion, distributor, HTTP all using hex(sha256('o:'+origin))) is checked in the Main-level world (C14/C16 runs) and by the bastion/distributor checks (C10, C15)"},
	})
}

// idRecorder is a feeder.Witness that only records under which ID it was called.
type idRecorder struct{ ids []string }

func (w *idRecorder) GetLatestCheckpoint(ctx context.Context, id string) ([]byte, error) {
	return nil, os.ErrNotExist
}
func (w *idRecorder) Update(ctx context.Context, id string, old uint64, cp []byte, proof [][]byte) ([]byte, error) {
	w.ids = append(w.ids, id)
	return nil, errors.New("recorder: not a witness")
}

// opTarget is the index of the log whose ID an update names (cross-log replays name another log's).
func opTarget(o Op, nLogs int) int {
	if o.M == "crosslog" && nLogs > 1 {
		return (o.L + 1 + umod(o.MV, nLogs-1)) % nLogs
	}
	return o.L
}

func mapKeysOf[V any](m map[string]V) []string {
	var ks []string
	for k := range m {
		ks = append(ks, k)
	}
	sort.Strings(ks)
	return ks
}

func filterClass(vs []Violation, classes ...string) []Violation {
	var out []Violation
	for _, v := range vs {
		for _, c := range classes {
			if v.Class == c {
				out = append(out, v)
			}
		}
	}
	return out
}
