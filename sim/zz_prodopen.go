package verifsim

import "database/sql"

// prodOpen opens a SQLite database file the way cmd/omniwitness opens its --db_file, through the named database/sql driver.
// This is the fallback; ./check replaces this file (with -overlay) by one whose statements are copied from
// cmd/omniwitness/monolith.go of the tree under test, so that a change to how production opens its store (DSN parameters,
// pragmas, pool settings) is what the crash children run with.
func prodOpen(drv, dbFileValue string) (*sql.DB, error) {
	db, err := sql.Open(drv, dbFileValue)
	if err != nil {
		return nil, err
	}
	db.SetMaxOpenConns(1)
	return db, nil
}

const prodOpenSource = "static fallback"
