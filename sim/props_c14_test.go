//go:build go1.25

package verifsim

import (
	"context"
	"database/sql"
	"encoding/hex"
	"encoding/json"
	"errors"
	"fmt"
	"io"
	"net"
	"net/http"
	"os"
	"path/filepath"
	"sort"
	"strconv"
	"strings"
	"sync"
	"testing"
	"testing/synctest"
	"time"

	f_note "github.com/transparency-dev/formats/note"
	"github.com/transparency-dev/witness/internal/persistence"
	"github.com/transparency-dev/witness/internal/persistence/inmemory"
	psql "github.com/transparency-dev/witness/internal/persistence/sql"
	"github.com/transparency-dev/witness/omniwitness"
	"golang.org/x/mod/sumdb/note"
)

// ---------------------------------------------------------------- in-memory listener (the only inbound network)

type memListener struct {
	ch     chan net.Conn
	closed chan struct{}
	once   sync.Once
}

func newMemListener() *memListener {
	return &memListener{ch: make(chan net.Conn), closed: make(chan struct{})}
}
func (l *memListener) Accept() (net.Conn, error) {
	select {
	case c := <-l.ch:
		return c, nil
	case <-l.closed:
		return nil, net.ErrClosed
	}
}
func (l *memListener) Close() error   { l.once.Do(func() { close(l.closed) }); return nil }
func (l *memListener) Addr() net.Addr { return &net.TCPAddr{IP: net.IPv4(127, 0, 0, 1), Port: 80} }
func (l *memListener) Dial(ctx context.Context, _, _ string) (net.Conn, error) {
	c, s := net.Pipe()
	select {
	case l.ch <- s:
		return c, nil
	case <-l.closed:
		return nil, net.ErrClosed
	case <-ctx.Done():
		return nil, ctx.Err()
	}
}

// ---------------------------------------------------------------- Main-level world

type mainInst struct {
	cancel context.CancelFunc
	done   chan error
	ln     *memListener
	tr     *http.Transport
	cl     *http.Client
	db     *sql.DB
}

type mainWorld struct {
	noneLog     string // origin of an extra configured log with Feeder: none and no URL
	racingReads int    // monitor reads launched while an update held its transaction
	initFails   bool   // the next start finds a store it cannot initialise
	p           *Plan
	W           *World
	stubs       []*tileStub
	sn          *SimNet
	store       persistence.LogStatePersistence
	dbPath      string
	dir         string
	inst        *mainInst
	interval    time.Duration
	witPub      WitKey
	signers     []note.Signer
	witV        note.Verifier
	events      []string
	opCfg       omniwitness.OperatorConfig

	distPuts   map[string]int // PUTs the (stub) distributor received, per log ID
	storeFault func(call, id string, occ int) error
	storeMu    sync.Mutex
	storeOcc   map[string]int
	storeFired int
}

func (m *mainWorld) logf(format string, a ...any) {
	m.events = append(m.events, fmt.Sprintf("t=%ds ", time.Now().Unix()-946684800)+fmt.Sprintf(format, a...))
}

func newMainWorld(p *Plan) (*mainWorld, error) {
	m := &mainWorld{p: p, W: NewWorld(p)}
	m.interval = time.Duration(p.Cfg.Extra["interval_s"]) * time.Second
	feeders := strings.Split(p.Cfg.Notes["feeders"], ",")
	m.sn = NewSimNet()
	var yaml strings.Builder
	yaml.WriteString("Logs:\n")
	for i, ld := range m.W.Logs {
		kind := "sumdb"
		if i < len(feeders) && feeders[i] != "" {
			kind = feeders[i]
		}
		host := fmt.Sprintf("log%d.example", i)
		st := &tileStub{tree: ld.Branches[0], origin: ld.Origin, key: ld.Key, world: m.W, keyIdx: ld.KeyIdx, kind: kind, size: 1}
		if kind == "tiles" && p.Cfg.Extra[fmt.Sprintf("ext%d", i)] != 0 {
			st.ext = []string{fmt.Sprintf("timestamp %d", 1700000000+i), "shard fill 100% sealed"}
		}
		st.xsigs = int(p.Cfg.Extra[fmt.Sprintf("xsig%d", i)])
		m.stubs = append(m.stubs, st)
		m.sn.Hosts[host] = st
		if kind == "pixel" || kind == "serverless" {
			m.sn.Hosts[host] = &otherLayoutStub{st: st}
		}
		if kind == "rekor" {
			// a Rekor-style log: log info as JSON (the configured tree is the active shard, or one of the inactive ones), proofs as JSON
			rs := &rekorStub{st: st, treeID: fmt.Sprint(7000 + i), inactive: p.Cfg.Extra[fmt.Sprintf("ext%d", i)] != 0}
			m.sn.Hosts[host] = rs
			if p.Cfg.Extra["rekor_shared"] != 0 {
				// as deployed: the shards of one Rekor instance are configured with the same URL and differ in the treeID parameter only
				host = "rekor.example"
				multi, _ := m.sn.Hosts[host].(*rekorMulti)
				if multi == nil {
					multi = &rekorMulti{}
					m.sn.Hosts[host] = multi
				}
				multi.shards = append(multi.shards, rs)
			}
		}
		if p.Cfg.Extra["redirected_logs"] != 0 && i > 0 && kind != "rekor" {
			// the configured URL is an alias that redirects to where the log lives
			alias, target := fmt.Sprintf("alias%d.example", i), host
			m.sn.Hosts[alias] = http.HandlerFunc(func(rw http.ResponseWriter, rq *http.Request) {
				http.Redirect(rw, rq, "http://"+target+rq.URL.EscapedPath(), http.StatusFound)
			})
			host = alias
		}
		url := "http://" + host
		if kind == "tiles" || kind == "pixel" || kind == "serverless" {
			url += "/"
		}
		if kind == "rekor" {
			url += fmt.Sprintf("/?treeID=%d", 7000+i)
		}
		fmt.Fprintf(&yaml, "  - Origin: %s\n    URL: %s\n    PublicKey: %s\n    Feeder: %s\n", strconv.Quote(ld.Origin), url, ld.Key.VerifierString(), kind) // quoted: origins may begin or end with blanks
	}
	if p.Cfg.Extra["distributor"] != 0 && p.Cfg.Extra["none_log"] != 0 {
		// a log without a feeder (its checkpoints only ever arrive through the bastion endpoint) and, as is legal for such an
		// entry, without a URL: it is a configured log like any other
		m.noneLog = "sim.example/pushed-only"
		fmt.Fprintf(&yaml, "  - Origin: %s\n    PublicKey: %s\n    Feeder: none\n", m.noneLog, m.W.Stranger.VerifierString())
	}
	omniwitness.ConfigLogs = []byte(yaml.String())
	if p.Cfg.Extra["distributor"] != 0 {
		// a REST distributor is configured as well; the stub records what it is sent and, optionally, never answers for the first log
		m.opCfg = omniwitness.OperatorConfig{RestDistributorBaseURL: "http://distributor.example", DistributeInterval: m.interval}
		m.distPuts = map[string]int{}
		first := m.W.Logs[0].ID
		m.sn.Hosts["distributor.example"] = http.HandlerFunc(func(rw http.ResponseWriter, rq *http.Request) {
			if rq.Method == http.MethodPut {
				for _, ld := range m.W.Logs {
					if strings.Contains(rq.URL.Path, "/logs/"+ld.ID+"/") {
						m.storeMu.Lock()
						m.distPuts[ld.ID]++
						m.storeMu.Unlock()
					}
				}
				if p.Cfg.Extra["dist_stall_first"] != 0 && strings.Contains(rq.URL.Path, "/logs/"+first+"/") {
					<-rq.Context().Done()
					return
				}
			}
			rw.WriteHeader(200)
		})
	}
	var err error
	m.signers, err = m.W.Signers()
	if err != nil {
		return nil, err
	}
	m.witPub = m.W.WitKeys[0]
	for _, wk := range m.W.WitKeys {
		if wk.Cosig {
			m.witPub = wk
			break
		}
	}
	if m.witPub.Cosig {
		m.witV, err = f_note.NewVerifierForCosignatureV1(m.witPub.Key.VerifierString())
	} else {
		m.witV, err = note.NewVerifier(m.witPub.Key.VerifierString())
	}
	if err != nil {
		return nil, err
	}
	if p.Cfg.Store == "sqlite" {
		var err error
		if m.dir, err = scratchDir("main"); err != nil {
			return nil, err
		}
		m.dbPath = filepath.Join(m.dir, "w.db")
	} else {
		m.store = inmemory.NewPersistence()
	}
	return m, nil
}

func (m *mainWorld) start() error {
	inst := &mainInst{ln: newMemListener(), done: make(chan error, 1)}
	store := m.store
	if m.dbPath != "" {
		db, err := sql.Open("sqlite3-sim", m.dbPath) // as cmd/omniwitness/monolith.go (driver wrapped so that row fetches can fail)
		if err != nil {
			return err
		}
		db.SetMaxOpenConns(1)
		inst.db = db
		store = psql.NewPersistence(db)
	}
	if m.storeOcc == nil {
		m.storeOcc = map[string]int{}
	}
	store = faultyP{in: store, mu: &m.storeMu, occ: m.storeOcc, fired: &m.storeFired, fault: func(call, id string, occ int) error {
		if m.storeFault == nil {
			return nil
		}
		return m.storeFault(call, id, occ)
	}, init: func() error {
		if m.initFails {
			return errors.New("injected: database is locked (at start-up)")
		}
		return nil
	}}
	if m.dbPath != "" && m.p.Cfg.Extra["racing_reads"] != 0 {
		// a monitor reads another log's checkpoint over HTTP exactly while an update sits in its transaction (seeded subset of
		// the updates). The update then waits one simulated millisecond, i.e. until everything else has come to rest: the read
		// is queued behind the one connection (or answered) before the update goes on.
		fp := store.(faultyP)
		fp.atWriteRead = func(id string, occ int) {
			if splitmix(m.p.Seed^strHash(id)^uint64(occ)*0x9e3779b97f4a7c15)%3 != 0 && occ > 1 {
				return
			}
			inst := m.inst
			if inst == nil {
				return
			}
			for _, ld := range m.W.Logs {
				if ld.ID != id {
					path := "/witness/v0/logs/" + ld.ID + "/checkpoint"
					go func() {
						if resp, err := inst.cl.Get("http://witness.example" + path); err == nil {
							io.Copy(io.Discard, resp.Body)
							resp.Body.Close()
						}
					}()
					m.storeMu.Lock()
					m.racingReads++
					m.storeMu.Unlock()
					break
				}
			}
			time.Sleep(time.Millisecond)
		}
		store = fp
	}
	ctx, cancel := context.WithCancel(context.Background())
	inst.cancel = cancel
	cfg := omniwitness.OperatorConfig{WitnessKeys: m.signers, WitnessVerifier: m.witV, FeedInterval: m.interval}
	if m.opCfg.RestDistributorBaseURL != "" {
		cfg.RestDistributorBaseURL = m.opCfg.RestDistributorBaseURL
		cfg.DistributeInterval = m.opCfg.DistributeInterval
	}
	hc := &http.Client{Transport: m.sn, Timeout: 10 * time.Second}
	go func() { inst.done <- omniwitness.Main(ctx, cfg, store, inst.ln, hc) }()
	inst.tr = &http.Transport{DialContext: inst.ln.Dial, DisableKeepAlives: true}
	inst.cl = &http.Client{Transport: inst.tr, Timeout: 20 * time.Second}
	m.inst = inst
	m.logf("main started")
	return nil
}

// stop cancels Main's context and waits (in simulated time) for it to return.
func (m *mainWorld) stop() (error, bool) {
	inst := m.inst
	began := time.Now()
	inst.cancel()
	var err error
	returned := false
	for i := 0; i < 120 && !returned; i++ {
		synctest.Wait()
		select {
		case err = <-inst.done:
			returned = true
		default:
			time.Sleep(time.Second)
		}
	}
	// How many of those seconds a shutdown takes depends on jitter that goroutines draw from the process-wide PRNG in an
	// order the simulation does not decide (net/http's Shutdown polls with jitter while feeders draw their backoff): pad the
	// stop to the next multiple of ten simulated seconds, so that a second more or less changes nothing downstream.
	time.Sleep(10*time.Second - time.Since(began)%(10*time.Second))
	inst.tr.CloseIdleConnections()
	inst.ln.Close()
	if inst.db != nil {
		inst.db.Close()
	}
	m.inst = nil
	m.logf("main stopped returned=%v", returned)
	return err, returned
}

func (m *mainWorld) get(path string) (int, []byte, error) {
	resp, err := m.inst.cl.Get("http://witness.example" + path)
	if err != nil {
		return 0, nil, err
	}
	defer resp.Body.Close()
	b, err := io.ReadAll(resp.Body)
	return resp.StatusCode, b, err
}

func (m *mainWorld) cleanup() {
	mainDrvFault = nil
	if m.dir != "" {
		os.RemoveAll(m.dir)
	}
}

// faultyP injects read errors into the store Main uses. Decisions depend only on (call, log ID, occurrence),
// never on arrival order, so runs stay deterministic without scheduling the feeder goroutines.
type faultyP struct {
	in    persistence.LogStatePersistence
	mu    *sync.Mutex
	occ   map[string]int
	fault func(call, id string, occ int) error
	fired *int
	init  func() error // makes Init fail (the database is locked by somebody else, or unreadable, when the process starts)
	// atWriteRead is called inside an update's transaction, right after it read the stored checkpoint
	atWriteRead func(id string, occ int)
}

func (f faultyP) Init() error {
	if f.init != nil {
		if err := f.init(); err != nil {
			return err
		}
	}
	return f.in.Init()
}
func (f faultyP) Logs() ([]string, error) { return f.in.Logs() }
func (f faultyP) ReadOps(id string) (persistence.LogStateReadOps, error) {
	r, err := f.in.ReadOps(id)
	if err != nil {
		return nil, err
	}
	return faultyR{r, f, id}, nil
}

type faultyR struct {
	persistence.LogStateReadOps
	f  faultyP
	id string
}

func (r faultyR) GetLatest() ([]byte, error) {
	r.f.mu.Lock()
	k := "R.GetLatest/" + r.id
	n := r.f.occ[k]
	r.f.occ[k] = n + 1
	var err error
	if r.f.fault != nil {
		err = r.f.fault("R.GetLatest", r.id, n)
	}
	if err != nil {
		*r.f.fired++
	}
	r.f.mu.Unlock()
	if err != nil {
		return nil, err
	}
	return r.LogStateReadOps.GetLatest()
}
func (f faultyP) WriteOps(id string) (persistence.LogStateWriteOps, error) {
	w, err := f.in.WriteOps(id)
	if err != nil {
		return nil, err
	}
	return faultyW{w, f, id}, nil
}

type faultyW struct {
	persistence.LogStateWriteOps
	f  faultyP
	id string
}

func (w faultyW) GetLatest() ([]byte, error) {
	w.f.mu.Lock()
	k := "W.GetLatest/" + w.id
	n := w.f.occ[k]
	w.f.occ[k] = n + 1
	var err error
	if w.f.fault != nil {
		err = w.f.fault("W.GetLatest", w.id, n)
	}
	if err != nil {
		*w.f.fired++
	}
	w.f.mu.Unlock()
	if err != nil {
		return nil, err
	}
	b, gerr := w.LogStateWriteOps.GetLatest()
	if w.f.atWriteRead != nil {
		w.f.atWriteRead(w.id, n) // the update now holds its transaction and has read the state it will judge against
	}
	return b, gerr
}

// rekorStub serves a tileStub's log the way a Rekor instance does.
// otherLayoutStub serves the tileStub's growing tree in the two other tile layouts the repository has feeders for: Pixel
// binary transparency (checkpoint.txt, height-1 tiles tile/1/<level>/<NNN>[.p/<w>]) and serverless-log (checkpoint,
// tile/<level>/<index as path of hex bytes>[.<width>]). Every tile path is validated; a malformed one is recorded.
type otherLayoutStub struct{ st *tileStub }

func (h *otherLayoutStub) ServeHTTP(rw http.ResponseWriter, rq *http.Request) {
	st := h.st
	p := rq.URL.Path
	if (st.kind == "pixel" && p == "/checkpoint.txt") || (st.kind == "serverless" && p == "/checkpoint") {
		rw.Write(st.checkpoint())
		return
	}
	st.mu.Lock()
	tree, size := st.tree, st.size
	st.mu.Unlock()
	var b []byte
	ok, wellFormed := false, false
	switch st.kind {
	case "pixel":
		f := strings.Split(strings.TrimPrefix(p, "/"), "/")
		if (len(f) == 4 || len(f) == 5) && f[0] == "tile" && f[1] == "1" {
			l, e1 := strconv.Atoi(f[2])
			n, e2 := strconv.Atoi(strings.TrimSuffix(f[3], ".p"))
			w, e3 := 2, error(nil)
			if len(f) == 5 {
				w, e3 = strconv.Atoi(f[4])
			}
			wellFormed = e1 == nil && e2 == nil && e3 == nil && l >= 0 && l < 63 && n >= 0 && (len(f) == 5) == strings.HasSuffix(f[3], ".p") && (len(f) == 4 || w == 1) &&
				f[3] == fmt.Sprintf("%03d", n)+map[bool]string{true: ".p", false: ""}[len(f) == 5] && f[2] == strconv.Itoa(l)
			if wellFormed {
				b, ok = st.tile(1, l, int64(n), w)
			}
		}
	case "serverless":
		b, ok = serverlessTile(tree, size, strings.TrimPrefix(p, "/"), false)
		wellFormed = ok || serverlessTilePathOK(strings.TrimPrefix(p, "/"))
	}
	if !wellFormed {
		st.mu.Lock()
		st.bad = append(st.bad, p)
		st.mu.Unlock()
		http.Error(rw, "malformed tile path", 400)
		return
	}
	if !ok {
		http.NotFound(rw, rq)
		return
	}
	st.mu.Lock()
	st.served++
	st.mu.Unlock()
	rw.Write(b)
}

type rekorStub struct {
	st       *tileStub
	treeID   string
	inactive bool // the configured tree is listed among the inactive shards; the active shard is another tree
}

// rekorMulti is one Rekor instance with several shards: the last one is the active tree, the others are listed as inactive
// shards; proofs are asked for by tree ID.
type rekorMulti struct{ shards []*rekorStub }

func (h *rekorMulti) ServeHTTP(rw http.ResponseWriter, rq *http.Request) {
	switch rq.URL.Path {
	case "/api/v1/log":
		act := h.shards[len(h.shards)-1]
		info := map[string]any{"signedTreeHead": string(act.st.checkpoint()), "treeID": act.treeID, "treeSize": 1, "rootHash": "00"}
		inact := []any{}
		for _, s := range h.shards[:len(h.shards)-1] {
			inact = append(inact, map[string]any{"signedTreeHead": string(s.st.checkpoint()), "treeID": s.treeID, "treeSize": 1, "rootHash": "00"})
		}
		info["inactiveShards"] = inact
		js, _ := json.Marshal(info)
		rw.Write(js)
	case "/api/v1/log/proof":
		for _, s := range h.shards {
			if s.treeID == rq.URL.Query().Get("treeID") {
				s.ServeHTTP(rw, rq)
				return
			}
		}
		http.NotFound(rw, rq)
	default:
		http.NotFound(rw, rq)
	}
}

func (h *rekorStub) ServeHTTP(rw http.ResponseWriter, rq *http.Request) {
	switch rq.URL.Path {
	case "/api/v1/log":
		cp := string(h.st.checkpoint())
		info := map[string]any{"signedTreeHead": cp, "treeID": h.treeID, "treeSize": 1, "rootHash": "00", "inactiveShards": []any{}}
		if h.inactive {
			info = map[string]any{"signedTreeHead": "other.example/log\n1\nAAAA\n\n\u2014 k AAAAAAAA\n", "treeID": "999", "treeSize": 1, "rootHash": "00",
				"inactiveShards": []any{map[string]any{"signedTreeHead": "x", "treeID": "555", "treeSize": 1, "rootHash": "00"}, map[string]any{"signedTreeHead": cp, "treeID": h.treeID, "treeSize": 1, "rootHash": "00"}}}
		}
		js, _ := json.Marshal(info)
		rw.Write(js)
	case "/api/v1/log/proof":
		var a, b uint64
		fmt.Sscan(rq.URL.Query().Get("firstSize"), &a)
		fmt.Sscan(rq.URL.Query().Get("lastSize"), &b)
		h.st.mu.Lock()
		tree := h.st.tree
		h.st.mu.Unlock()
		hs := []string{}
		if a > 0 && a < b && b <= 1<<40 {
			for _, x := range tree.ConsistencyProof(a, b) {
				hs = append(hs, hex.EncodeToString(x))
			}
		}
		js, _ := json.Marshal(map[string]any{"hashes": hs})
		rw.Write(js)
		h.st.mu.Lock()
		h.st.served++
		h.st.mu.Unlock()
	default:
		http.NotFound(rw, rq)
	}
}

// ---------------------------------------------------------------- C14

type c14Result struct {
	hung      bool // wall-clock watch expired: goroutines are stuck, the process must not go on
	completed bool // the script ran to its end and the service was stopped
	viol      []Violation
	infra     string
	events    []string
	stats     Stats
	sample    any
	distinct  []string
}

// c14Exec runs one script against the assembled service under a wall-clock watch: inside a bubble everything that waits
// for time or for the network is simulated, so a run that takes two minutes of real time is stuck on something that is
// neither (a lock order inversion, say) - and such a bubble cannot be left any more.
func c14Exec(t *testing.T, p *Plan) *c14Result {
	done := make(chan *c14Result, 1)
	go func() { done <- c14ExecInBubble(t, p) }()
	for i := 0; i < 120; i++ {
		select {
		case r := <-done:
			return r
		case <-time.After(time.Second):
		}
	}
	select {
	case r := <-done:
		return r
	default:
	}
	return &c14Result{stats: newStats(), hung: true, viol: []Violation{{Class: "not_caught_up", Sig: "not_caught_up/service_hung",
		Detail: "the run did not finish within 120 s of wall-clock time (simulated time and the network cannot explain that: the clock is fake): the service is stuck on a lock, or spins"}}}
}

func c14ExecInBubble(t *testing.T, p *Plan) (r *c14Result) {
	r = &c14Result{stats: newStats()}
	defer func() {
		if x := recover(); x != nil {
			if strings.Contains(fmt.Sprint(x), "blocked goroutines remain") && r.completed {
				// the script ran to its end and Main was stopped, yet goroutines the service started are still blocked for good:
				// typically database/sql's watcher of a transaction that was neither committed nor rolled back - on the
				// one-connection store that transaction also blocks every later request
				if len(r.viol) == 0 {
					r.viol = append(r.viol, Violation{Class: "not_caught_up", Sig: "not_caught_up/blocked_goroutines_at_end", Detail: fmt.Sprintf("after the service was stopped, goroutines it started were still blocked for good (%v): a storage transaction was left open", x)})
				}
			} else {
				r.infra = fmt.Sprintf("bubble ended abnormally: %v", x)
			}
			dumpGoroutines()
		}
	}()
	synctest.Test(t, func(t *testing.T) {
		pinGlobalRand(p.Seed)
		m, err := newMainWorld(p)
		if err != nil {
			r.infra = err.Error()
			return
		}
		defer m.cleanup()
		w := m.W
		add := func(cls, sig, d string) {
			r.viol = append(r.viol, Violation{Class: cls, Sig: cls + "/" + sig, Detail: d})
		}
		// initial sizes
		for i, st := range m.stubs {
			st.size = uint64(p.Cfg.Extra[fmt.Sprintf("size%d", i)])
			if st.size == 0 {
				st.size = 1
			}
		}
		if err := m.start(); err != nil {
			r.infra = err.Error()
			return
		}
		start := time.Now()
		witnessed := map[int]Stored{} // last checkpoint served per log
		forked := map[int]bool{}
		faultSeed := uint64(0)
		m.sn.FaultFn = func(class string, occ int) string {
			if faultSeed == 0 || strings.Contains(class, " rekor.example/") {
				// (the shards of one Rekor instance send byte-identical requests in the same instant; which of them is "the n-th"
				// is not the simulation's decision, so faults keyed by occurrence would not replay: none on that host)
				return ""
			}
			h := splitmix(strHash(class) ^ uint64(occ)*0x9e37 ^ faultSeed)
			if h%100 >= uint64(p.Cfg.Extra["fault_pct"]) {
				return ""
			}
			return []string{"drop", "status:500", "status:404", "trunc:40", "corrupt:9", "stall", "delay:3000", "garbage:3", "empty", "droprsp"}[(h/100)%10]
		}
		// observe checks what the running service serves for every log
		observe := func(why string, requireCaughtUp bool) {
			if m.inst != nil {
				select {
				case err := <-m.inst.done:
					add("not_caught_up", "main_exited", fmt.Sprintf("%s: omniwitness.Main returned on its own (the service is gone): %v", why, err))
					m.inst.done <- err
					return
				default:
				}
			}
			for i, ld := range w.Logs {
				code, body, err := m.get("/witness/v0/logs/" + ld.ID + "/checkpoint")
				st := m.stubs[i]
				st.mu.Lock()
				wantText := st.cpText
				curSize, curTree := st.size, st.tree
				st.mu.Unlock()
				_ = curTree
				if err != nil || (code != 200 && code != 404) {
					add("not_caught_up", "read_failed", fmt.Sprintf("%s: GET checkpoint of log %d: status %d err %v body %s", why, i, code, err, short(body)))
					continue
				}
				var served Stored
				if code == 200 {
					served = parseStored(body)
					if served.Bad {
						add("not_caught_up", "unparsable", fmt.Sprintf("%s: log %d serves bytes that do not parse: %s", why, i, short(body)))
						continue
					}
					if cls, d := w.checkCosigned(ld, served.Text, body, time.Time{}, time.Time{}, false); cls != "" {
						add("not_caught_up", "not_cosigned/"+cls, fmt.Sprintf("%s: log %d: %s", why, i, d))
					}
					if _, ok := w.Signed[ld.KeyIdx][served.Text]; !ok {
						add("left_witnessed_history", "unsigned_text", fmt.Sprintf("%s: log %d serves a text the log never signed", why, i))
					}
				}
				prev := witnessed[i]
				if prev.Has {
					if !served.Has {
						add("regressed_after_restart", "lost", fmt.Sprintf("%s: log %d served {%s} before and nothing now", why, i, cpBrief(prev)))
					} else if ok, whyNot := w.Compatible(i, prev.Size, prev.Root, served.Size, served.Root); !ok {
						cls := "left_witnessed_history"
						if served.Size < prev.Size {
							cls = "regressed_after_restart"
						}
						add(cls, whyNot, fmt.Sprintf("%s: log %d served {%s} before and {%s} now", why, i, cpBrief(prev), cpBrief(served)))
					}
				}
				if requireCaughtUp && !forked[i] {
					want := curSize
					if !served.Has || served.Size != want || (wantText != "" && served.Text != wantText) {
						add("not_caught_up", "behind", fmt.Sprintf("%s: log %d (%s feeder) is at size %d but the witness serves {%s} after 3 poll intervals without faults", why, i, st.kind, want, cpBrief(served)))
					}
				}
				if served.Has {
					witnessed[i] = served
				}
			}
			// the log list names exactly the logs with a served checkpoint
			code, body, err := m.get("/witness/v0/logs")
			if err == nil && code == 200 {
				for i, ld := range w.Logs {
					if witnessed[i].Has != strings.Contains(string(body), `"`+ld.ID+`"`) {
						add("id_disagreement", "loglist", fmt.Sprintf("%s: log %d served=%v but the log list is %s", why, i, witnessed[i].Has, short(body)))
					}
				}
			}
			m.logf("observed (%s): %v", why, briefAll(witnessed, len(w.Logs)))
		}
		settle := func() {
			for k := 0; k < 3; k++ {
				time.Sleep(m.interval)
			}
			time.Sleep(time.Second)
			synctest.Wait()
		}
		settle()
		observe("start", true)
		atStart := map[int]bool{}
		for i := range w.Logs {
			atStart[i] = witnessed[i].Has
		}
		for oi, op := range p.Ops {
			if len(r.viol) > 0 {
				break
			}
			l := ((op.L % len(w.Logs)) + len(w.Logs)) % len(w.Logs)
			st := m.stubs[l]
			switch op.K {
			case "grow":
				st.mu.Lock()
				st.size += op.D
				st.mu.Unlock()
				m.logf("op %d grow log %d by %d -> %d", oi, l, op.D, st.size)
				if op.MV != 0 {
					// growth under network faults, then faults stop
					faultSeed = op.MV
					for k := 0; k < int(1+op.MV%3); k++ {
						time.Sleep(m.interval)
					}
					synctest.Wait()
					observe(fmt.Sprintf("op %d under faults", oi), false)
					faultSeed = 0
					r.stats.Fired["fault_window"]++
				}
				settle()
				observe(fmt.Sprintf("op %d grow", oi), true)
			case "overfull":
				// the log grows and publishes that checkpoint with 100 signature lines (its own and 99 of parties the witness does
				// not know): whatever the witness makes of it, it serves something readable on the witnessed history; the log then
				// grows again with an ordinary checkpoint, which the witness must reach like any other
				st.mu.Lock()
				was := st.xsigs
				st.size += op.D
				st.xsigs = 99
				st.mu.Unlock()
				m.logf("op %d log %d grows by %d -> %d, published with 100 signature lines", oi, l, op.D, st.size)
				settle()
				observe(fmt.Sprintf("op %d (a checkpoint with 100 signature lines is on offer)", oi), false)
				st.mu.Lock()
				st.size += op.MV
				st.xsigs = was
				st.mu.Unlock()
				r.stats.Fired["overfull_checkpoint_published"]++
				settle()
				observe(fmt.Sprintf("op %d ordinary growth after a checkpoint with 100 signature lines", oi), true)
			case "restart":
				if err, ok := m.stop(); !ok {
					add("not_caught_up", "main_did_not_stop", fmt.Sprintf("op %d: Main did not return within 120 simulated seconds of its context ending (%v)", oi, err))
					return
				}
				time.Sleep(time.Duration(op.Ms) * time.Millisecond)
				if err := m.start(); err != nil {
					r.infra = err.Error()
					return
				}
				r.stats.Fired["graceful_restart"]++
				time.Sleep(time.Second)
				synctest.Wait()
				if m.dbPath != "" {
					observe(fmt.Sprintf("op %d right after restart", oi), false)
				} else {
					witnessed = map[int]Stored{} // an in-memory witness forgets; that is documented, not a violation
				}
				settle()
				observe(fmt.Sprintf("op %d restart", oi), true)
			case "writefault":
				// the log grows and the write of the update that follows fails once inside the database driver (SQLite busy, disk
				// full, I/O error): the witness must simply catch up at a later poll
				if m.dbPath == "" {
					continue
				}
				st.mu.Lock()
				st.size += 1 + op.D
				st.mu.Unlock()
				var fmu sync.Mutex
				target, fired := w.Logs[l].ID, false
				prevFault := mainDrvFault
				kind := []string{"busy", "full", "ioerr", "locked"}[op.MV%4]
				mainDrvFault = func(dop, arg string) error {
					fmu.Lock()
					defer fmu.Unlock()
					if dop == "Exec" && arg == target && !fired {
						fired = true
						return injected(kind)
					}
					return nil
				}
				settle()
				settle()
				mainDrvFault = prevFault
				fmu.Lock()
				if fired {
					r.stats.Fired["write_failed_in_driver/"+kind]++
				}
				fmu.Unlock()
				observe(fmt.Sprintf("op %d grow with a failed write", oi), true)
			case "killcommit":
				// the log grows; the update that follows is held right before its COMMIT (as if the process were about to be killed
				// there); whatever the service hands out meanwhile is noted; then the commit fails, the service is stopped and a new
				// one started on the same file. What was handed out must still hold.
				if m.dbPath == "" || !witnessed[l].Has || witnessed[l].Size < 1 {
					continue
				}
				heldFrom := witnessed[l].Size
				st.mu.Lock()
				st.size += 1 + op.D
				st.mu.Unlock()
				gate := make(chan struct{})
				var gmu sync.Mutex
				armed, parked := true, false
				prevFault := mainDrvFault
				target, lastExec := w.Logs[l].ID, ""
				mainDrvFault = func(dop, arg string) error {
					gmu.Lock()
					if dop == "Exec" {
						lastExec = arg // the one connection's latest write names the log its transaction is for
					}
					hit := armed && dop == "Commit" && lastExec == target
					if hit {
						armed, parked = false, true
					}
					gmu.Unlock()
					if hit {
						<-gate
						return injected("ioerr")
					}
					return nil
				}
				settle()
				gmu.Lock()
				wasParked := parked
				armed = false
				gmu.Unlock()
				if wasParked {
					r.stats.Fired["update_held_before_commit_then_lost"]++
					for i, ld2 := range w.Logs {
						code, body, err := m.get("/witness/v0/logs/" + ld2.ID + "/checkpoint")
						if err != nil || code != 200 {
							continue // readers queue behind the held transaction: fine
						}
						if served := parseStored(body); !served.Bad {
							if pv := witnessed[i]; !pv.Has || served.Size >= pv.Size {
								witnessed[i] = served // handed out: it has to hold from now on
							}
						}
					}
				}
				close(gate)
				mainDrvFault = prevFault
				if wasParked {
					// from now on the log serves another continuation of what the witness durably holds (it shares exactly the
					// first heldFrom leaves): acceptable to a witness that handed out nothing newer, a split view otherwise
					nb := st.tree.Fork(heldFrom, fmt.Sprintf("fork-after-lost-commit-op%d", oi))
					w.Logs[l].Branches = append(w.Logs[l].Branches, nb)
					st.mu.Lock()
					st.tree = nb
					st.mu.Unlock()
					forked[l] = true
				}
				if err, ok := m.stop(); !ok {
					add("not_caught_up", "main_did_not_stop", fmt.Sprintf("op %d: Main did not return within 120 simulated seconds of its context ending (%v)", oi, err))
					return
				}
				if err := m.start(); err != nil {
					r.infra = err.Error()
					return
				}
				time.Sleep(time.Second)
				synctest.Wait()
				observe(fmt.Sprintf("op %d right after the restart that followed a lost commit", oi), false)
				settle()
				observe(fmt.Sprintf("op %d after a lost commit", oi), true)
			case "badstart":
				// the service is stopped, the log starts serving a fork, and the next start finds its database unusable (locked by
				// another process, say). Giving up is fine; serving is fine too - as long as what is served stays on the history the
				// witness had acknowledged. Then the operator fixes the database and starts again.
				ld := w.Logs[l]
				prev := witnessed[l]
				if m.dbPath == "" || !prev.Has || prev.Size < 2 {
					continue
				}
				if err, ok := m.stop(); !ok {
					add("not_caught_up", "main_did_not_stop", fmt.Sprintf("op %d: Main did not return within 120 simulated seconds of its context ending (%v)", oi, err))
					return
				}
				at := uint64(op.MV % prev.Size)
				nb := st.tree.Fork(at, fmt.Sprintf("fork-op%d", oi))
				ld.Branches = append(ld.Branches, nb)
				st.mu.Lock()
				st.tree, st.size = nb, prev.Size+op.D%3
				st.mu.Unlock()
				forked[l] = true
				m.initFails = true
				if err := m.start(); err != nil {
					r.infra = err.Error()
					return
				}
				r.stats.Fired["start_with_unusable_database"]++
				settle()
				gaveUp := false
				select {
				case err := <-m.inst.done:
					gaveUp = true
					m.logf("op %d: Main gave up on the unusable store: %v", oi, err)
					m.inst.done <- err
				default:
				}
				if !gaveUp {
					for i, ld2 := range w.Logs {
						code, body, err := m.get("/witness/v0/logs/" + ld2.ID + "/checkpoint")
						if err != nil || code != 200 {
							continue // not serving this log while its store is unusable is fail-safe
						}
						served := parseStored(body)
						if pv := witnessed[i]; pv.Has && !served.Bad {
							if ok, whyNot := w.Compatible(i, pv.Size, pv.Root, served.Size, served.Root); !ok {
								add("left_witnessed_history", "served_while_store_unusable/"+whyNot, fmt.Sprintf("op %d: started on an unusable database, the service nevertheless serves for log %d a cosigned {%s}, which does not extend the {%s} it had acknowledged before", oi, i, cpBrief(served), cpBrief(pv)))
							}
						}
					}
					r.stats.Probes["served_despite_unusable_database"]++
				} else {
					r.stats.Probes["gave_up_on_unusable_database"]++
				}
				m.stop()
				m.initFails = false
				if err := m.start(); err != nil {
					r.infra = err.Error()
					return
				}
				settle()
				observe(fmt.Sprintf("op %d after the database was repaired", oi), false)
			case "fork":
				// the log starts serving a history that does not extend what was witnessed
				ld := w.Logs[l]
				prev := witnessed[l]
				if !prev.Has || prev.Size < 2 {
					continue
				}
				at := uint64(op.MV % prev.Size)
				nb := st.tree.Fork(at, fmt.Sprintf("fork-op%d", oi))
				ld.Branches = append(ld.Branches, nb)
				st.mu.Lock()
				st.tree = nb
				switch op.M {
				case "same":
					st.size = prev.Size
				case "smaller":
					st.size = at + 1 + (op.D % (prev.Size - at))
				default:
					st.size = prev.Size + 1 + op.D
				}
				st.mu.Unlock()
				forked[l] = true
				if op.PV != 0 {
					// while the log serves the fork, reads of the stored checkpoint inside the update transaction fail
					// intermittently with a plain (status-less) error, as a busy or failing database would
					seed, id := op.PV, ld.ID
					if seed%2 == 0 || m.dbPath == "" {
						m.storeFault = func(call, lid string, occ int) error {
							if call == "W.GetLatest" && lid == id && splitmix(seed^uint64(occ)*0x9e3779b9)%2 == 0 {
								return errors.New("injected: database is locked")
							}
							return nil
						}
					} else {
						// the same, one level down: the row fetch of the SELECT for this log fails inside the SQL driver
						var dmu sync.Mutex
						docc := 0
						mainDrvFault = func(op, arg string) error {
							if op != "Next" || arg != id {
								return nil
							}
							dmu.Lock()
							defer dmu.Unlock()
							docc++
							if splitmix(seed^uint64(docc)*0x9e3779b9)%2 == 0 {
								m.storeMu.Lock()
								m.storeFired++
								m.storeMu.Unlock()
								return errors.New("injected: database is locked (row fetch)")
							}
							return nil
						}
					}
					r.stats.Fired["storage_read_faults_during_fork"]++
				}
				r.stats.Fired["log_forked_"+op.M]++
				m.logf("op %d fork log %d at %d (%s) size %d", oi, l, at, op.M, st.size)
				settle()
				observe(fmt.Sprintf("op %d fork", oi), false)
				settle()
				observe(fmt.Sprintf("op %d fork, later", oi), false)
			}
		}
		for i, st := range m.stubs {
			st.mu.Lock()
			if len(st.bad) > 0 {
				add("not_caught_up", "malformed_tile_request", fmt.Sprintf("log %d (%s): the stub server received malformed tile requests %v", i, st.kind, st.bad))
			}
			r.stats.Probes["tile_requests_served"] += st.served
			r.distinct = append(r.distinct, fmt.Sprintf("%s/%d", st.kind, st.size))
			st.mu.Unlock()
		}
		if m.distPuts != nil {
			// every log the service had a checkpoint for from the start is offered to the distributor, whatever the distributor
			// does with another log's checkpoint
			m.storeMu.Lock()
			for i, ld := range w.Logs {
				if atStart[i] && m.distPuts[ld.ID] == 0 {
					add("not_caught_up", "never_distributed", fmt.Sprintf("log %d had a served checkpoint from the start, yet over %v the distributor never received a PUT for it (PUTs per log: %v; distributor stalls on the first log: %v)", i, time.Since(start), m.distPuts, p.Cfg.Extra["dist_stall_first"] != 0))
				}
			}
			m.storeMu.Unlock()
			if m.noneLog != "" && m.storeOcc["R.GetLatest/"+LogID(m.noneLog)] == 0 {
				add("id_disagreement", "log_missing_from_distributor_list", fmt.Sprintf("the configured log %q (no feeder, no URL) is known to the witness, but over %v the distributor never asked for its checkpoint: the list Main gives the distributor and the bastion endpoint does not name it", m.noneLog, time.Since(start)))
			}
			r.stats.Probes["runs_with_a_distributor"]++
		}
		// storage keys are the same IDs
		if m.inst != nil {
			m.stop()
		}
		for k, v := range m.sn.Fired {
			r.stats.Fired[k] += v
		}
		r.stats.Fired["storage/W.GetLatest_failed"] += m.storeFired
		r.stats.Probes["monitor_reads_during_an_update_transaction"] += m.racingReads
		r.stats.SimNanos = int64(time.Since(start))
		r.events = m.events
		time.Sleep(2 * time.Minute)
		synctest.Wait()
		r.completed = true
	})
	return r
}

func briefAll(m map[int]Stored, n int) string {
	var s []string
	for i := 0; i < n; i++ {
		if m[i].Has {
			s = append(s, fmt.Sprintf("log%d@%d", i, m[i].Size))
		} else {
			s = append(s, fmt.Sprintf("log%d@-", i))
		}
	}
	return strings.Join(s, " ")
}

func init() {
	register(&Scenario{
		Prop:  "C14",
		Level: "exploration",
		Rule:  "the real omniwitness.Main inside a synctest bubble, configured through ConfigLogs with 1..4 stub logs of the sumdb and tiles feeder types - and, beyond what the property quantifies over, of the rekor, pixel and serverless types - served from the reference tree in each type's own layout (every tile path validated by the stub), in-memory or file-backed SQLite storage, the real http.Server on an in-memory listener, simnet as the only outbound network; seeded scripts of growth steps (sizes crossing 255/256/257 and 65535/65536), growth under windows of network faults (drop, 5xx, 404, truncation, corruption, garbage, stall past the client timeout, delay), graceful restarts on the same SQLite file, one published checkpoint that already carries 100 signature lines followed by ordinary ones, and finally a fork (larger, same size, smaller), half of the time while reads of the stored checkpoint fail intermittently with a status-less storage error; oracle through HTTP GET of the running service: caught up within 3 poll intervals of simulated time once faults stopped, validly cosigned, never backwards across restarts, stays on the witnessed history after a fork, log list consistent; non-trivial = at least one growth crossed a tile boundary or happened under faults, or a restart/fork happened; distinct = distinct (feeder kind, final size) and script shapes",
		Gen: func(r *Rng, tier string, n uint64) *Plan {
			p := &Plan{Scenario: "main"}
			nl := r.Range(1, 4)
			p.Cfg = Config{Store: Pick(r, "mem", "sqlite", "sqlite"), Dense: 512, WitKeys: Pick(r, []string{"ed:0", "cosig:0"}, []string{"cosig:0"}),
				Extra: map[string]int64{"interval_s": int64(Pick(r, 10, 30, 60, 300)), "fault_pct": int64(Pick(r, 20, 40, 70))}, Notes: map[string]string{}}
			var feeders []string
			for i := 0; i < nl; i++ {
				p.Cfg.Logs = append(p.Cfg.Logs, LogCfg{Origin: fmt.Sprintf("sim.example/main%d", i), Key: i})
				feeders = append(feeders, Pick(r, "tiles", "tiles", "tiles", "rekor", "pixel", "serverless")) // only one SumDB-shaped log can exist: its origin is fixed by the format
				p.Cfg.Extra[fmt.Sprintf("size%d", i)] = int64(Pick(r, 1, 2, 200, 254, 255, 256, 257, 300, 65530, 65536))
				p.Cfg.Extra[fmt.Sprintf("ext%d", i)] = int64(r.IntN(2))
				if i > 0 && r.Chance(0.25) {
					// the log publishes its checkpoints with other parties' signature lines, up to what still leaves room for this witness's own
					most := 100 - 1 - len(p.Cfg.WitKeys)
					p.Cfg.Extra[fmt.Sprintf("xsig%d", i)] = int64(Pick(r, most, most, most-1, 50, 3))
				}
			}
			if nl > 1 && r.Chance(0.3) {
				// an origin of unusual but legal shape: every part of Main must still mean the same log by it
				i := r.Range(1, nl-1)
				p.Cfg.Logs[i].Origin = Pick(r, "%s ", " %s", "%s\u00a0", "Sim Example Log %s", "%s/UPPER")
				p.Cfg.Logs[i].Origin = fmt.Sprintf(p.Cfg.Logs[i].Origin, fmt.Sprintf("sim.example/main%d", i))
			}
			if nl > 2 && r.Chance(0.25) {
				// several shards of one Rekor instance
				for i := 1; i < nl; i++ {
					feeders[i] = "rekor"
				}
			}
			nrekor := 0
			for _, f := range feeders[1:] {
				if f == "rekor" {
					nrekor++
				}
			}
			if nrekor >= 2 && r.Chance(0.8) {
				p.Cfg.Extra["rekor_shared"] = 1
			}
			feeders[0] = []string{"sumdb", "tiles"}[n%2]
			if feeders[0] == "sumdb" {
				p.Cfg.Logs[0].Origin = "go.sum database tree"
			}
			p.Cfg.Notes["feeders"] = strings.Join(feeders, ",")
			steps := r.Range(2, 6)
			for i := 0; i < steps; i++ {
				l := r.IntN(nl)
				switch r.Weighted(60, 20) {
				case 0:
					d := uint64(Pick(r, 1, 1, 2, 3, 50, 255, 256, 257, 1000, 65535, 65536, 70000))
					o := Op{K: "grow", L: l, D: d}
					if r.Chance(0.35) {
						o.MV = 1 + r.Uint64()%1000000
					}
					p.Ops = append(p.Ops, o)
				default:
					p.Ops = append(p.Ops, Op{K: "restart", Ms: int64(Pick(r, 0, 1000, 90000))})
				}
			}
			if p.Cfg.Store == "sqlite" && nl > 1 && r.Bool() {
				p.Cfg.Extra["racing_reads"] = 1
			}
			if r.Chance(0.4) {
				p.Cfg.Extra["distributor"] = 1
				if nl > 1 && r.Bool() {
					p.Cfg.Extra["dist_stall_first"] = 1
				}
				if r.Bool() {
					p.Cfg.Extra["redirected_logs"] = 1
				}
				if r.Bool() {
					p.Cfg.Extra["none_log"] = 1
				}
			}
			if p.Cfg.Store == "sqlite" && r.Chance(0.3) {
				p.Ops = append(p.Ops, Op{K: "writefault", L: r.IntN(nl), D: uint64(r.IntN(300)), MV: r.Uint64()})
			}
			if r.Chance(0.15) {
				// once, the log publishes a checkpoint that already carries as many signature lines as the note format allows; then
				// ordinary ones again
				p.Ops = append(p.Ops, Op{K: "overfull", L: r.IntN(nl), D: uint64(Pick(r, 1, 2, 40, 256)), MV: uint64(Pick(r, 1, 2, 300))})
				if p.Cfg.Store == "sqlite" && r.Bool() {
					p.Ops = append(p.Ops, Op{K: "restart", Ms: 1000}, Op{K: "grow", L: int(p.Ops[len(p.Ops)-1].L), D: uint64(r.Range(1, 300))})
				}
			}
			if p.Cfg.Store == "sqlite" && r.Chance(0.25) {
				p.Ops = append(p.Ops, Op{K: "killcommit", L: r.IntN(nl), D: uint64(r.IntN(300))})
			}
			if p.Cfg.Store == "sqlite" && r.Chance(0.2) {
				p.Ops = append(p.Ops, Op{K: "badstart", L: r.IntN(nl), MV: r.Uint64(), D: uint64(r.IntN(300))})
			} else if r.Chance(0.7) {
				fo := Op{K: "fork", L: r.IntN(nl), M: Pick(r, "larger", "larger", "same", "smaller"), MV: r.Uint64(), D: uint64(r.IntN(300))}
				if r.Chance(0.5) {
					fo.PV = 1 + r.Uint64()%1000000
				}
				p.Ops = append(p.Ops, fo)
			}
			return p
		},
		Run: func(t *testing.T, p *Plan) *Outcome {
			out := &Outcome{Stats: newStats()}
			r := c14Exec(t, p)
			if r.infra != "" {
				out.Infra = []string{r.infra}
				out.Events = r.events
				return out
			}
			out.Viol, out.Stats, out.Events, out.Hung = r.viol, r.stats, r.events, r.hung
			var shape []string
			for _, o := range p.Ops {
				s := o.K
				if o.K == "grow" && o.MV != 0 {
					s = "grow+faults"
				}
				if o.K == "fork" {
					s = "fork:" + o.M
				}
				shape = append(shape, s)
			}
			out.Distinct = append(r.distinct, p.Cfg.Store+"/"+p.Cfg.Notes["feeders"]+"/"+strings.Join(shape, ","))
			ev := r.events
			if len(ev) > 14 {
				ev = ev[:14]
			}
			out.Sample = map[string]any{"seed": p.Seed, "store": p.Cfg.Store, "feeders": p.Cfg.Notes["feeders"], "poll_interval_s": p.Cfg.Extra["interval_s"], "script": shape, "events": ev}
			return out
		},
		Components: map[string]string{
			"omniwitness.Main (errgroup wiring, witness map, feeders, HTTP server, shutdown)":                                                                          "real",
			"internal/feeder/sumdb, tiles, rekor, pixelbt, serverless (+ tessera and serverless-log proof builders, x/mod tlog), internal/feeder.Run/FeedOnce/backoff": "real",
			"internal/http + net/http.Server on an in-memory net.Pipe listener":                                                                                        "real",
			"internal/witness + in-memory / file-backed SQLite persistence":                                                                                            "real",
			"log servers":                       "harness stubs (SumDB, tlog-tiles, Rekor JSON, Pixel height-1 tiles, serverless-log tiles) over the reference tree; validate every tile path",
			"outbound network":                  "simnet with class-keyed seeded faults",
			"clock, tickers, timeouts, backoff": "synctest fake clock",
			"bastion feeder, distributor":       "not started in this check (no bastion address / distributor URL configured)",
		},
		Assumptions: []string{"goroutines of different feeders are not individually scheduled here; network faults are keyed by request class and occurrence so outcomes do not depend on cross-feeder interleaving", "an in-memory witness forgets on restart by design; never-backwards is asserted on SQLite only"},
	})
}

var _ = sort.Strings
