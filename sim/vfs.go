// Package verifsim is the deterministic-simulation harness for transparency-dev/witness.
// Everything except this file lives in _test.go files (synctest needs *testing.T);
// this file holds the cgo shim because cgo is not allowed in test files.
package verifsim

/*
#cgo linux LDFLAGS: -Wl,--unresolved-symbols=ignore-in-object-files
#include "sqlite3-binding.h"
#include <string.h>
#include <stdlib.h>
#include <signal.h>
#include <unistd.h>

// A shim SQLite VFS ("verifsim") that forwards to the default VFS and numbers
// every xWrite/xTruncate/xSync/xDelete. At a chosen number it kills the process
// (before the call, or after writing only the first torn_bytes bytes), or returns
// an I/O error / disk-full for a window of operation numbers. The real SQLite
// then reacts to that, so whatever follows is a behaviour production can show.

static sqlite3_vfs *realvfs;
static sqlite3_vfs simvfs;
static long opcount = 0;
static long crash_at = -1;
static long torn_bytes = -1;
static long fail_from = -1, fail_to = -1;
static int  fail_mode = 0; // 1 = IOERR, 2 = FULL, 3 = short write (treated by SQLite as FULL)
static long fails_fired = 0;

typedef struct { sqlite3_file base; sqlite3_file *real; } simfile;

static int should_fail(void){ if (opcount >= fail_from && opcount <= fail_to) { fails_fired++; return 1; } return 0; }
static void maybe_crash(void){ if (opcount == crash_at) { kill(getpid(), SIGKILL); } }

static int sClose(sqlite3_file *f){ simfile *s=(simfile*)f; int rc = s->real->pMethods ? s->real->pMethods->xClose(s->real) : SQLITE_OK; sqlite3_free(s->real); return rc; }
static int sRead(sqlite3_file *f, void *b, int n, sqlite3_int64 o){ simfile *s=(simfile*)f; return s->real->pMethods->xRead(s->real,b,n,o); }
static int sWrite(sqlite3_file *f, const void *b, int n, sqlite3_int64 o){ simfile *s=(simfile*)f; opcount++;
  if (opcount == crash_at && torn_bytes >= 0) { long k = torn_bytes < n ? torn_bytes : n; if (k > 0) s->real->pMethods->xWrite(s->real,b,(int)k,o); kill(getpid(), SIGKILL); }
  maybe_crash();
  if (should_fail()) {
    if (fail_mode == 2) return SQLITE_FULL;
    if (fail_mode == 3) { if (n > 1) s->real->pMethods->xWrite(s->real,b,n/2,o); return SQLITE_FULL; }
    return SQLITE_IOERR_WRITE;
  }
  return s->real->pMethods->xWrite(s->real,b,n,o); }
static int sTruncate(sqlite3_file *f, sqlite3_int64 sz){ simfile *s=(simfile*)f; opcount++; maybe_crash(); if (should_fail()) return SQLITE_IOERR_TRUNCATE; return s->real->pMethods->xTruncate(s->real,sz); }
static int sSync(sqlite3_file *f, int fl){ simfile *s=(simfile*)f; opcount++; maybe_crash(); if (should_fail()) return SQLITE_IOERR_FSYNC; return s->real->pMethods->xSync(s->real,fl); }
static int sFileSize(sqlite3_file *f, sqlite3_int64 *p){ simfile *s=(simfile*)f; return s->real->pMethods->xFileSize(s->real,p); }
static int sLock(sqlite3_file *f, int l){ simfile *s=(simfile*)f; return s->real->pMethods->xLock(s->real,l); }
static int sUnlock(sqlite3_file *f, int l){ simfile *s=(simfile*)f; return s->real->pMethods->xUnlock(s->real,l); }
static int sCheck(sqlite3_file *f, int *r){ simfile *s=(simfile*)f; return s->real->pMethods->xCheckReservedLock(s->real,r); }
static int sFileControl(sqlite3_file *f, int op, void *a){ simfile *s=(simfile*)f; return s->real->pMethods->xFileControl(s->real,op,a); }
static int sSectorSize(sqlite3_file *f){ simfile *s=(simfile*)f; return s->real->pMethods->xSectorSize(s->real); }
static int sDevChar(sqlite3_file *f){ simfile *s=(simfile*)f; return s->real->pMethods->xDeviceCharacteristics(s->real); }
// version-2 methods (shared memory for WAL mode) are forwarded untouched: a store that the real binary put into
// WAL mode must stay usable under the shim; WAL frames still reach the disk through sWrite/sSync above
static int sShmMap(sqlite3_file *f, int pg, int sz, int ext, void volatile **pp){ simfile *s=(simfile*)f; return s->real->pMethods->xShmMap(s->real,pg,sz,ext,pp); }
static int sShmLock(sqlite3_file *f, int off, int n, int fl){ simfile *s=(simfile*)f; return s->real->pMethods->xShmLock(s->real,off,n,fl); }
static void sShmBarrier(sqlite3_file *f){ simfile *s=(simfile*)f; s->real->pMethods->xShmBarrier(s->real); }
static int sShmUnmap(sqlite3_file *f, int del){ simfile *s=(simfile*)f; return s->real->pMethods->xShmUnmap(s->real,del); }
static sqlite3_io_methods simio = { 2, sClose, sRead, sWrite, sTruncate, sSync, sFileSize, sLock, sUnlock, sCheck, sFileControl, sSectorSize, sDevChar, sShmMap, sShmLock, sShmBarrier, sShmUnmap };

static int vOpen(sqlite3_vfs *v, const char *name, sqlite3_file *f, int flags, int *out){
  simfile *s=(simfile*)f; s->real = sqlite3_malloc(realvfs->szOsFile); memset(s->real,0,realvfs->szOsFile);
  int rc = realvfs->xOpen(realvfs,name,s->real,flags,out);
  if (rc==SQLITE_OK) s->base.pMethods=&simio; else { sqlite3_free(s->real); s->base.pMethods=0; }
  return rc; }
static int vDelete(sqlite3_vfs *v, const char *name, int sync){ opcount++; maybe_crash(); if (should_fail()) return SQLITE_IOERR_DELETE; return realvfs->xDelete(realvfs,name,sync); }
static int vAccess(sqlite3_vfs *v, const char *n, int fl, int *r){ return realvfs->xAccess(realvfs,n,fl,r); }
static int vFull(sqlite3_vfs *v, const char *n, int nOut, char *out){ return realvfs->xFullPathname(realvfs,n,nOut,out); }
static int vRand(sqlite3_vfs *v, int n, char *o){ return realvfs->xRandomness(realvfs,n,o); }
static int vSleep(sqlite3_vfs *v, int us){ return realvfs->xSleep(realvfs,us); }
static int vTime(sqlite3_vfs *v, double *t){ return realvfs->xCurrentTime(realvfs,t); }
static int vLastErr(sqlite3_vfs *v, int n, char *o){ return realvfs->xGetLastError ? realvfs->xGetLastError(realvfs,n,o) : 0; }

static int sim_register(void){
  if (realvfs) return 0;
  realvfs = sqlite3_vfs_find(0); if(!realvfs) return 1;
  memset(&simvfs,0,sizeof simvfs);
  simvfs.iVersion=1; simvfs.szOsFile=sizeof(simfile); simvfs.mxPathname=realvfs->mxPathname; simvfs.zName="verifsim";
  simvfs.xOpen=vOpen; simvfs.xDelete=vDelete; simvfs.xAccess=vAccess; simvfs.xFullPathname=vFull;
  simvfs.xRandomness=vRand; simvfs.xSleep=vSleep; simvfs.xCurrentTime=vTime; simvfs.xGetLastError=vLastErr;
  return sqlite3_vfs_register(&simvfs, 0);
}
static int sim_make_default(void){ if (sim_register()) return 1; return sqlite3_vfs_register(&simvfs, 1); }
static void sim_crash(long at, long torn){ crash_at = at; torn_bytes = torn; }
static void sim_fail(long a, long b, int m){ fail_from=a; fail_to=b; fail_mode=m; }
static long sim_count(void){ return opcount; }
static long sim_fired(void){ long f = fails_fired; fails_fired = 0; return f; }
*/
import "C"

import "fmt"

// RegisterVFS registers the shim VFS under the name "verifsim" (idempotent).
func RegisterVFS() error {
	if rc := C.sim_register(); rc != 0 {
		return fmt.Errorf("sqlite3_vfs_register rc=%d", rc)
	}
	return nil
}

// RegisterVFSDefault registers the shim and makes it the process's default VFS, so that connections opened without naming
// a VFS (as the production binary opens its database) go through it too.
func RegisterVFSDefault() error {
	if rc := C.sim_make_default(); rc != 0 {
		return fmt.Errorf("sqlite3_vfs_register(default) rc=%d", rc)
	}
	return nil
}

// VFSSetCrash arms a process kill at absolute VFS operation number at; torn >= 0
// makes it a torn write (only the first torn bytes of that write reach the file).
func VFSSetCrash(at int64, torn int64) { C.sim_crash(C.long(at), C.long(torn)) }

// VFSSetFail makes VFS operations numbered a..b fail (1 IOERR, 2 FULL, 3 short write).
func VFSSetFail(a, b int64, mode int) { C.sim_fail(C.long(a), C.long(b), C.int(mode)) }

// VFSOpCount is the number of numbered VFS operations so far in this process.
func VFSOpCount() int64 { return int64(C.sim_count()) }

// VFSFired returns and resets the number of VFS operations that were failed.
func VFSFired() int64 { return int64(C.sim_fired()) }
