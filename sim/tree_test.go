package verifsim

// Reference Merkle tree written from RFC 6962 §2.1 and RFC 9162 §2.1.4.2.
// Independent of transparency-dev/merkle and of x/mod/sumdb/tlog: it is the
// ground truth of the simulation ("which leaves does this checkpoint commit
// to") and the independent proof verifier.
//
// Trees are sparse: leaf i has distinct content while i < Dense, a shared
// default content above, and per-branch overrides ("special" leaves). Perfect
// sub-trees that contain only default leaves are looked up in a table, so
// trees of size up to 2^63 cost O(64) hashes per node query.

import (
	"crypto/sha256"
	"encoding/binary"
	"math/bits"
	"sort"
	"sync"
)

type Hash = [32]byte

func hashLeaf(data []byte) Hash {
	h := sha256.New()
	h.Write([]byte{0})
	h.Write(data)
	var out Hash
	h.Sum(out[:0])
	return out
}

// hashChildrenRaw hashes arbitrary-length children (a hostile proof may carry
// elements that are not 32 bytes long).
func hashChildrenRaw(l, r []byte) []byte {
	h := sha256.New()
	h.Write([]byte{1})
	h.Write(l)
	h.Write(r)
	return h.Sum(nil)
}

func hashChildren(l, r Hash) Hash {
	var out Hash
	copy(out[:], hashChildrenRaw(l[:], r[:]))
	return out
}

var emptyRoot = sha256.Sum256(nil)

var defaultLeaf = hashLeaf([]byte("verifsim default leaf"))

// uniform[h] is the root of a perfect tree of 2^h default leaves.
var uniform = func() (u [64]Hash) {
	u[0] = defaultLeaf
	for i := 1; i < 64; i++ {
		u[i] = hashChildren(u[i-1], u[i-1])
	}
	return
}()

// RefTree is one branch of a forking log.
type RefTree struct {
	Dense   uint64            // leaves below this index are pairwise distinct
	Special map[uint64]string // per-branch leaf overrides
	sorted  []uint64          // sorted keys of Special
	mmu     sync.Mutex        // memo is shared when stub servers of one run answer concurrently
	memo    map[[2]uint64]Hash
}

func NewRefTree(dense uint64, special map[uint64]string) *RefTree {
	t := &RefTree{Dense: dense, Special: map[uint64]string{}, memo: map[[2]uint64]Hash{}}
	for k, v := range special {
		t.Special[k] = v
	}
	t.resort()
	return t
}

func (t *RefTree) resort() {
	t.sorted = t.sorted[:0]
	for k := range t.Special {
		t.sorted = append(t.sorted, k)
	}
	sort.Slice(t.sorted, func(i, j int) bool { return t.sorted[i] < t.sorted[j] })
}

// Fork returns a branch that agrees with t on every leaf except index at
// (which gets content tag) — so the two are prefix-compatible exactly for
// sizes <= at.
func (t *RefTree) Fork(at uint64, tag string) *RefTree {
	n := NewRefTree(t.Dense, t.Special)
	n.Special[at] = tag
	n.resort()
	return n
}

// LeafContent is the ground truth used for prefix comparisons.
func (t *RefTree) LeafContent(i uint64) string {
	if s, ok := t.Special[i]; ok {
		return "s:" + s
	}
	if i < t.Dense {
		return "d"
	}
	return ""
}

func (t *RefTree) leafHash(i uint64) Hash {
	if s, ok := t.Special[i]; ok {
		return hashLeaf([]byte("s:" + s))
	}
	if i < t.Dense {
		var b [9]byte
		b[0] = 'd'
		binary.BigEndian.PutUint64(b[1:], i)
		return hashLeaf(b[:])
	}
	return defaultLeaf
}

func (t *RefTree) nonDefaultIn(lo, hi uint64) bool {
	if lo < t.Dense {
		return true
	}
	i := sort.Search(len(t.sorted), func(i int) bool { return t.sorted[i] >= lo })
	return i < len(t.sorted) && t.sorted[i] < hi
}

func largestPow2Below(n uint64) uint64 { // largest power of two < n, n >= 2
	return uint64(1) << (bits.Len64(n-1) - 1)
}

// mth is RFC 6962's MTH(D[lo:hi]) for hi > lo.
func (t *RefTree) mth(lo, hi uint64) Hash {
	n := hi - lo
	if n == 1 {
		return t.leafHash(lo)
	}
	pow2 := n&(n-1) == 0
	if pow2 && !t.nonDefaultIn(lo, hi) {
		return uniform[bits.TrailingZeros64(n)]
	}
	key := [2]uint64{lo, hi}
	if pow2 {
		t.mmu.Lock()
		h, ok := t.memo[key]
		t.mmu.Unlock()
		if ok {
			return h
		}
	}
	k := largestPow2Below(n)
	h := hashChildren(t.mth(lo, lo+k), t.mth(lo+k, hi))
	if pow2 {
		t.mmu.Lock()
		t.memo[key] = h
		t.mmu.Unlock()
	}
	return h
}

// Root is MTH(D[0:size]).
func (t *RefTree) Root(size uint64) Hash {
	if size == 0 {
		return emptyRoot
	}
	return t.mth(0, size)
}

// ConsistencyProof is RFC 6962 PROOF(m, D[n]) for 0 < m <= n.
func (t *RefTree) ConsistencyProof(m, n uint64) [][]byte {
	if m == 0 || m >= n {
		return [][]byte{}
	}
	out := [][]byte{}
	t.subproof(m, 0, n, true, &out)
	return out
}

func (t *RefTree) subproof(m, lo, hi uint64, b bool, out *[][]byte) {
	n := hi - lo
	if m == n {
		if !b {
			h := t.mth(lo, hi)
			*out = append(*out, h[:])
		}
		return
	}
	k := largestPow2Below(n)
	if m <= k {
		t.subproof(m, lo, lo+k, b, out)
		h := t.mth(lo+k, hi)
		*out = append(*out, h[:])
	} else {
		t.subproof(m-k, lo+k, hi, false, out)
		h := t.mth(lo, lo+k)
		*out = append(*out, h[:])
	}
}

// PrefixCompatible reports whether the first m leaves of (a, any size >= m)
// equal the first m leaves of b. Ground truth, not proof checking.
func PrefixCompatible(a, b *RefTree, m uint64) bool {
	if a == b {
		return true
	}
	if a.Dense != b.Dense {
		lo, hi := a.Dense, b.Dense
		if lo > hi {
			lo, hi = hi, lo
		}
		if lo < m {
			return false
		}
	}
	for k, v := range a.Special {
		if k < m {
			if w, ok := b.Special[k]; !ok || w != v {
				return false
			}
		}
	}
	for k := range b.Special {
		if k < m {
			if _, ok := a.Special[k]; !ok {
				return false
			}
		}
	}
	return true
}

// RefVerifyConsistency is the RFC 9162 §2.1.4.2 algorithm for 0 < first < second.
// Proof elements and roots are raw byte strings so hostile lengths are
// handled the way a byte-level implementation would.
func RefVerifyConsistency(first, second uint64, proof [][]byte, firstHash, secondHash []byte) bool {
	if first == 0 || first >= second {
		return false
	}
	if len(proof) == 0 {
		return false
	}
	p := proof
	if first&(first-1) == 0 {
		p = append([][]byte{firstHash}, proof...)
	}
	fn, sn := first-1, second-1
	for fn&1 == 1 {
		fn >>= 1
		sn >>= 1
	}
	fr, sr := p[0], p[0]
	for _, c := range p[1:] {
		if sn == 0 {
			return false
		}
		if fn&1 == 1 || fn == sn {
			fr = hashChildrenRaw(c, fr)
			sr = hashChildrenRaw(c, sr)
			for fn&1 == 0 && fn != 0 {
				fn >>= 1
				sn >>= 1
			}
		} else {
			sr = hashChildrenRaw(sr, c)
		}
		fn >>= 1
		sn >>= 1
	}
	return sn == 0 && string(fr) == string(firstHash) && string(sr) == string(secondHash)
}
