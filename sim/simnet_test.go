package verifsim

// simnet: the only network the code under test sees. A RoundTripper that routes
// by host to in-process handlers (stub logs, stub distributor, the witness's
// own router), records every request, and applies the plan's network faults:
// drop, status substitution, truncation, corruption, oversized bodies, stall
// past the client's timeout, delay, duplication, redirect.

import (
	"bytes"
	"errors"
	"fmt"
	"io"
	"net/http"
	"net/http/httptest"
	"strings"
	"sync"
	"time"
)

type NetReq struct {
	N      int
	Method string
	Host   string
	Path   string // path?query
	Body   []byte
	Fault  string
	Status int
	At     time.Time
}

type SimNet struct {
	mu     sync.Mutex
	Hosts  map[string]http.Handler
	Log    []*NetReq
	occ    map[string]int
	Faults map[string]string // "net#<n>" or "<METHOD> <host><path>#<occ>" -> kind[:arg]
	Fired  map[string]int
	// Park, if set, is called before the request is handed to the handler and before the response is
	// handed back (the two in-flight moments), with a canonical key; the scheduler decides when it returns.
	Park    func(key string)
	Default string // fault applied to every request with no explicit one (e.g. "drop" for a dead network)
	// FaultFn, if set, decides the fault of a request from its class and occurrence number only, so that the
	// decision does not depend on the order in which concurrent goroutines reach the network.
	FaultFn   func(class string, occ int) string
	OnRequest func(r *NetReq)
	Latency   time.Duration
}

func NewSimNet() *SimNet {
	return &SimNet{Hosts: map[string]http.Handler{}, occ: map[string]int{}, Faults: map[string]string{}, Fired: map[string]int{}}
}

type errReader struct {
	data []byte
	err  error
}

func (e *errReader) Read(p []byte) (int, error) {
	if len(e.data) == 0 {
		return 0, e.err
	}
	n := copy(p, e.data)
	e.data = e.data[n:]
	return n, nil
}
func (e *errReader) Close() error { return nil }

var errSimDrop = errors.New("simnet: connection dropped")

func (n *SimNet) RoundTrip(req *http.Request) (*http.Response, error) {
	var body []byte
	if req.Body != nil {
		body, _ = io.ReadAll(req.Body)
		req.Body.Close()
	}
	pq := req.URL.EscapedPath() // the path as it goes on the wire
	if req.URL.RawQuery != "" {
		pq += "?" + req.URL.RawQuery
	}
	n.mu.Lock()
	rec := &NetReq{N: len(n.Log), Method: req.Method, Host: req.URL.Host, Path: pq, Body: body, At: time.Now()}
	n.Log = append(n.Log, rec)
	class := req.Method + " " + req.URL.Host + pq
	o := n.occ[class]
	n.occ[class] = o + 1
	fault := n.Faults[fmt.Sprintf("net#%d", rec.N)]
	if fault == "" {
		fault = n.Faults[fmt.Sprintf("%s#%d", class, o)]
	}
	if fault == "" {
		fault = n.Faults[class+"#*"]
	}
	if fault == "" && n.FaultFn != nil {
		fault = n.FaultFn(class, o)
	}
	if fault == "" {
		fault = n.Default
	}
	rec.Fault = fault
	kind, arg, _ := strings.Cut(fault, ":")
	if kind != "" {
		n.Fired["net/"+kind]++
	}
	h := n.Hosts[req.URL.Host]
	park := n.Park
	onReq := n.OnRequest
	n.mu.Unlock()
	if onReq != nil {
		onReq(rec)
	}
	key := fmt.Sprintf("%s#%d", class, o)
	if n.Latency > 0 {
		// every exchange takes simulated time, so that a client looping on redirects or retries runs into its timeouts
		select {
		case <-time.After(n.Latency):
		case <-req.Context().Done():
			return nil, req.Context().Err()
		}
	}
	if park != nil {
		park("net>" + key)
	}
	if err := req.Context().Err(); err != nil {
		return nil, err
	}
	argN := int64(0)
	fmt.Sscan(arg, &argN)
	switch kind {
	case "drop":
		return nil, errSimDrop
	case "stall":
		<-req.Context().Done()
		return nil, req.Context().Err()
	case "delay":
		select {
		case <-time.After(time.Duration(argN) * time.Millisecond):
		case <-req.Context().Done():
			return nil, req.Context().Err()
		}
	}
	if h == nil {
		return nil, fmt.Errorf("simnet: no such host %q", req.URL.Host)
	}
	serve := func() *http.Response {
		w := httptest.NewRecorder()
		r2 := req.Clone(req.Context())
		r2.Body = io.NopCloser(bytes.NewReader(body))
		r2.ContentLength = int64(len(body))
		r2.RequestURI = req.URL.RequestURI()
		r2.RemoteAddr = "simnet:1"
		h.ServeHTTP(w, r2)
		resp := w.Result()
		resp.Request = req
		return resp
	}
	resp := serve()
	if kind == "dup" {
		resp = serve() // a retransmitted request: the handler sees it twice, the first answer is lost
	}
	rec.Status = resp.StatusCode
	if park != nil {
		park("net<" + key)
	}
	if err := req.Context().Err(); err != nil {
		return nil, err
	}
	switch kind {
	case "droprsp":
		return nil, errSimDrop
	case "status":
		b, _ := io.ReadAll(resp.Body)
		resp.StatusCode = int(argN)
		resp.Status = fmt.Sprintf("%d %s", argN, http.StatusText(int(argN)))
		resp.Body = io.NopCloser(bytes.NewReader(b))
		rec.Status = resp.StatusCode
	case "redirloop":
		// a redirect back to the very same URL, for ever
		resp.StatusCode = int(argN)
		resp.Status = fmt.Sprintf("%d %s", argN, http.StatusText(int(argN)))
		resp.Header.Set("Location", req.URL.EscapedPath())
		resp.Body = io.NopCloser(bytes.NewReader(nil))
		rec.Status = resp.StatusCode
	case "redirect":
		resp.StatusCode = int(argN)
		resp.Status = fmt.Sprintf("%d %s", argN, http.StatusText(int(argN)))
		resp.Header.Set("Location", "/redirected"+req.URL.EscapedPath())
		resp.Body = io.NopCloser(bytes.NewReader(nil))
		rec.Status = resp.StatusCode
	case "trunc":
		b, _ := io.ReadAll(resp.Body)
		cut := 0
		if len(b) > 0 {
			cut = int(argN % int64(len(b)))
		}
		resp.Body = &errReader{data: b[:cut], err: io.ErrUnexpectedEOF}
		resp.ContentLength = -1
	case "corrupt":
		b, _ := io.ReadAll(resp.Body)
		if len(b) > 0 {
			b[int(argN%int64(len(b)))] ^= 0x41
		}
		resp.Body = io.NopCloser(bytes.NewReader(b))
	case "garbage":
		r := NewRng(uint64(argN))
		resp.Body = io.NopCloser(bytes.NewReader(r.Bytes(1 + r.IntN(300))))
		resp.ContentLength = -1
	case "empty":
		resp.Body = io.NopCloser(bytes.NewReader(nil))
		resp.ContentLength = 0
	case "literal":
		// a well-formed but unexpected document: the smallest JSON values, a lone line feed, a bare number
		lit := []string{"null", "[]", "{}", "0", "\"\"", "true", "\n", "[null]", "{\"hashes\":null}", "-1"}[int(argN)%10]
		resp.Body = io.NopCloser(strings.NewReader(lit))
		resp.ContentLength = int64(len(lit))
	case "contentlength":
		// the response announces a body length it does not have (the header is the peer's to choose)
		resp.ContentLength = argN
		resp.Header.Set("Content-Length", fmt.Sprint(argN))
	case "oversize":
		b, _ := io.ReadAll(resp.Body)
		resp.Body = io.NopCloser(io.MultiReader(bytes.NewReader(b), bytes.NewReader(bytes.Repeat([]byte("A"), int(argN)))))
		resp.ContentLength = -1
	}
	return resp, nil
}

func (n *SimNet) Requests() []*NetReq {
	n.mu.Lock()
	defer n.mu.Unlock()
	return append([]*NetReq{}, n.Log...)
}
