package verifsim

// Crash machinery for C06: the history runs in a child process of this same
// test binary on a file-backed SQLite store opened as production opens it
// (driver name and VFS name aside); the child SIGKILLs itself at a chosen
// database-driver operation boundary or at a chosen numbered VFS operation
// (clean or torn write). Acknowledgements are written to stdout after each
// Update returns. Only what SQLite made durable survives.

import (
	"bufio"
	"bytes"
	"context"
	"database/sql"
	"encoding/base64"
	"encoding/json"
	"errors"
	"fmt"
	"io"
	"net"
	"net/http"
	"os"
	"os/exec"
	"strconv"
	"strings"
	"sync"
	"sync/atomic"
	"syscall"
	"time"

	psql "github.com/transparency-dev/witness/internal/persistence/sql"
	"github.com/transparency-dev/witness/internal/witness"
	"google.golang.org/grpc/codes"
	"google.golang.org/grpc/status"
)

func init() { childModes["1"] = crashChild }

// readStoreState reads every configured log's latest checkpoint through a fresh,
// fault-free connection (the store's own read path).
func readStoreState(path string, w *World) (map[string]Stored, []string, error) {
	db, err := sql.Open("sqlite3", "file:"+path+"?_busy_timeout=2000")
	if err != nil {
		return nil, nil, err
	}
	defer db.Close()
	db.SetMaxOpenConns(1)
	p := psql.NewPersistence(db)
	if err := p.Init(); err != nil {
		return nil, nil, fmt.Errorf("Init: %v", err)
	}
	logs, err := p.Logs()
	if err != nil {
		return nil, nil, fmt.Errorf("Logs: %v", err)
	}
	out := map[string]Stored{}
	for _, l := range w.Logs {
		r, err := p.ReadOps(l.ID)
		if err != nil {
			return nil, nil, err
		}
		b, err := r.GetLatest()
		if err != nil {
			if status.Code(err) == codes.NotFound {
				continue
			}
			return nil, nil, fmt.Errorf("GetLatest(%d): %v", l.Idx, err)
		}
		out[l.ID] = parseStored(b)
	}
	return out, logs, nil
}

func crashChild() {
	fail := func(format string, a ...any) {
		fmt.Fprintf(os.Stderr, "verifsim child: "+format+"\n", a...)
		os.Exit(2)
	}
	pb, err := os.ReadFile(os.Getenv("VERIF_CHILD_PLAN"))
	if err != nil {
		fail("plan: %v", err)
	}
	var plan Plan
	if err := json.Unmarshal(pb, &plan); err != nil {
		fail("plan: %v", err)
	}
	path := os.Getenv("VERIF_CHILD_DB")
	from := int(envInt("VERIF_CHILD_FROM", 0))
	to := int(envInt("VERIF_CHILD_TO", int64(len(plan.Ops))))
	spec := os.Getenv("VERIF_CHILD_CRASH")
	trace := os.Getenv("VERIF_CHILD_TRACE") != ""
	w := NewWorld(&plan)
	tracked, _, err := readStoreState(path, w)
	if err != nil {
		fail("reading state: %v", err)
	}
	if err := RegisterVFSDefault(); err != nil {
		fail("vfs: %v", err)
	}
	out := os.Stdout
	// arm the crash
	var drvN int64
	crashDrv, crashPhase := int64(-1), ""
	if strings.HasPrefix(spec, "drv:") {
		f := strings.Split(spec, ":")
		crashDrv, _ = strconv.ParseInt(f[1], 10, 64)
		crashPhase = f[2]
	}
	var witRef *witness.Witness
	inCrash := false
	drvHook = func(op string, after bool) {
		if inCrash {
			return
		}
		if !after {
			drvN++
			if trace {
				fmt.Fprintf(out, "TRACE drv %d %s vfs %d\n", drvN, op, VFSOpCount())
			}
		}
		if drvN == crashDrv && ((crashPhase == "before" && !after) || (crashPhase == "after" && after)) {
			// just before the kill, a concurrent reader gets a short chance: whatever the witness hands out now
			// must still hold after the restart (with the shipped code the reader simply waits for the connection)
			inCrash = true
			if witRef != nil {
				done := make(chan struct{})
				go func() {
					defer close(done)
					for _, l := range w.Logs {
						if b, err := witRef.GetCheckpoint(l.ID); err == nil {
							fmt.Fprintf(out, "READ %d %s\n", l.Idx, base64.StdEncoding.EncodeToString(b))
						}
					}
				}()
				select {
				case <-done:
				case <-time.After(25 * time.Millisecond):
				}
			}
			syscall.Kill(os.Getpid(), syscall.SIGKILL)
			select {}
		}
	}
	if strings.HasPrefix(spec, "vfs:") {
		f := strings.Split(spec, ":")
		n, _ := strconv.ParseInt(f[1], 10, 64)
		torn := int64(-1)
		if len(f) > 3 && f[2] == "torn" {
			torn, _ = strconv.ParseInt(f[3], 10, 64)
		}
		VFSSetCrash(VFSOpCount()+n, torn)
	}
	db, err := prodOpen("sqlite3-sim", path+c06DBSuffixOf(&plan)) // as cmd/omniwitness opens --db_file (the shim is this process's default VFS)
	if err != nil {
		fail("open: %v", err)
	}
	if trace {
		fmt.Fprintf(out, "TRACE prodopen %s\n", prodOpenSource)
	}
	known, _ := w.KnownLogs()
	signers, _ := w.Signers()
	wit, err := witness.New(witness.Opts{Persistence: psql.NewPersistence(db), Signers: signers, KnownLogs: known})
	if err != nil {
		fail("witness.New: %v", err)
	}
	witRef = wit
	// storage errors short of a crash (plan faults "mf:<n>": the n-th driver operation of this process after start-up fails
	// with the given error): what the witness acknowledges in spite of them must be as durable as anything else
	mf := map[int64]string{}
	for _, f := range plan.Faults {
		var n int64
		if _, err := fmt.Sscanf(f.At, "mf:%d", &n); err == nil {
			mf[n] = f.Kind
		}
	}
	if len(mf) > 0 {
		var mfN int64
		mainDrvFault = func(op, arg string) error {
			mfN++
			if k, ok := mf[mfN]; ok {
				fmt.Fprintf(out, "FAULT %d %s %s\n", mfN, op, k)
				return injected(k)
			}
			return nil
		}
	}
	if trace {
		fmt.Fprintf(out, "TRACE init drv %d vfs %d\n", drvN, VFSOpCount())
	}
	for i := from; i < to && i < len(plan.Ops); i++ {
		op := plan.Ops[i]
		if op.K != "update" {
			fmt.Fprintf(out, "ACK %d skip -\n", i)
			continue
		}
		src := w.Logs[((op.L%len(w.Logs))+len(w.Logs))%len(w.Logs)]
		req := resolveUpdate(w, op, tracked[src.ID])
		res, err := wit.Update(context.Background(), req.LogID, req.Old, req.CP, req.Proof)
		cls := classify(err)
		if err == nil {
			tracked[req.LogID] = parseStored(res)
		}
		enc := base64.StdEncoding.EncodeToString(res)
		if enc == "" {
			enc = "-"
		}
		fmt.Fprintf(out, "ACK %d %s %s\n", i, cls, enc)
		if trace {
			fmt.Fprintf(out, "TRACE op %d drv %d vfs %d\n", i, drvN, VFSOpCount())
		}
	}
	fmt.Fprintf(out, "DONE drv %d vfs %d\n", drvN, VFSOpCount())
	db.Close()
	os.Exit(0)
}

type childRead struct {
	Log int
	Out []byte
}

type childAck struct {
	Op    int
	Class string
	Out   []byte
}

type childResult struct {
	Acks    []childAck
	Reads   []childRead
	Killed  bool
	Done    bool
	DrvOps  []string // names of driver operations in order (trace runs)
	DrvVFS  []int64  // VFS op count at each driver operation (trace runs)
	TotDrv  int64
	TotVFS  int64
	InitDrv int64
	InitVFS int64
	Stderr  string
	Exit    int
	Faults  int64 // injected driver errors (not crashes) that fired in this child
}

func runChild(planPath, dbPath string, from, to int, crash string, trace bool) (*childResult, error) {
	exe := os.Getenv("VERIF_BIN")
	if exe == "" {
		exe, _ = os.Executable()
	}
	cmd := exec.Command(exe, append([]string{"-test.run", "^$"}, childCoverArgs()...)...)
	cmd.Env = append(os.Environ(), "VERIF_CHILD=1", "VERIF_CHILD_PLAN="+planPath, "VERIF_CHILD_DB="+dbPath,
		fmt.Sprintf("VERIF_CHILD_FROM=%d", from), fmt.Sprintf("VERIF_CHILD_TO=%d", to), "VERIF_CHILD_CRASH="+crash)
	if trace {
		cmd.Env = append(cmd.Env, "VERIF_CHILD_TRACE=1")
	}
	var so, se bytes.Buffer
	cmd.Stdout, cmd.Stderr = &so, &se
	err := cmd.Run()
	cr := &childResult{Stderr: se.String()}
	if err != nil {
		if ee, ok := err.(*exec.ExitError); ok {
			if ws, ok := ee.Sys().(syscall.WaitStatus); ok && ws.Signaled() && ws.Signal() == syscall.SIGKILL {
				cr.Killed = true
			} else {
				cr.Exit = ee.ExitCode()
			}
		} else {
			return nil, err
		}
	}
	sc := bufio.NewScanner(&so)
	sc.Buffer(make([]byte, 1<<20), 1<<24)
	for sc.Scan() {
		f := strings.Fields(sc.Text())
		switch {
		case len(f) >= 4 && f[0] == "ACK":
			i, _ := strconv.Atoi(f[1])
			var b []byte
			if f[3] != "-" {
				b, _ = base64.StdEncoding.DecodeString(f[3])
			}
			cr.Acks = append(cr.Acks, childAck{Op: i, Class: f[2], Out: b})
		case len(f) >= 4 && f[0] == "FAULT":
			cr.Faults++
		case len(f) >= 3 && f[0] == "READ":
			i, _ := strconv.Atoi(f[1])
			b, _ := base64.StdEncoding.DecodeString(f[2])
			cr.Reads = append(cr.Reads, childRead{Log: i, Out: b})
		case len(f) >= 6 && f[0] == "TRACE" && f[1] == "drv":
			cr.DrvOps = append(cr.DrvOps, f[3])
			v, _ := strconv.ParseInt(f[5], 10, 64)
			cr.DrvVFS = append(cr.DrvVFS, v)
		case len(f) >= 6 && f[0] == "TRACE" && f[1] == "init":
			cr.InitDrv, _ = strconv.ParseInt(f[3], 10, 64)
			cr.InitVFS, _ = strconv.ParseInt(f[5], 10, 64)
		case len(f) >= 5 && f[0] == "DONE":
			cr.Done = true
			cr.TotDrv, _ = strconv.ParseInt(f[2], 10, 64)
			cr.TotVFS, _ = strconv.ParseInt(f[4], 10, 64)
		}
	}
	return cr, nil
}

// integrityCheck runs PRAGMA integrity_check on a fresh raw connection.
func integrityCheck(path string) (string, error) {
	db, err := sql.Open("sqlite3", "file:"+path+"?_busy_timeout=2000")
	if err != nil {
		return "", err
	}
	defer db.Close()
	var s string
	if err := db.QueryRow("PRAGMA integrity_check").Scan(&s); err != nil {
		return "", err
	}
	return s, nil
}

// realRestart starts the REAL cmd/omniwitness binary (built from the tree under test) on the store file, the
// way an operator restarts the service after a crash, reads every log's checkpoint over its HTTP API and stops
// it again. This is the only place where cmd/omniwitness/monolith.go's own way of opening the store runs.
// errPortTrouble: the real binary could not get its listening port in any attempt - trouble of the harness, not of the code under test.
var errPortTrouble = errors.New("could not find a free port for the real binary")

var portCounter atomic.Int64

// c06DBSuffix is appended to the store's path wherever it is used as the VALUE of --db_file (the real binary, the crash
// children): an operator may run the store in WAL mode by configuring --db_file=<path>?_journal_mode=WAL. Inspection
// through a fresh connection uses the plain path (SQLite finds the journal mode in the file).
var c06DBSuffix string

func c06DBSuffixOf(p *Plan) string {
	if p.Cfg.Extra["wal"] != 0 {
		return "?_journal_mode=WAL"
	}
	return ""
}

func realRestart(bin, db string, w *World) (map[string][]byte, map[string]int, error) {
	var lastErr error
	for attempt := 0; attempt < 12; attempt++ {
		out, status, retry, err := realRestartOnce(bin, db, w)
		if err == nil {
			return out, status, nil
		}
		lastErr = err
		if !retry {
			return nil, nil, lastErr
		}
	}
	return nil, nil, fmt.Errorf("%w: %v", errPortTrouble, lastErr)
}

// lockedBuf is a bytes.Buffer that may be read while exec's copier goroutine writes to it.
type lockedBuf struct {
	mu sync.Mutex
	b  bytes.Buffer
}

func (l *lockedBuf) Write(p []byte) (int, error) {
	l.mu.Lock()
	defer l.mu.Unlock()
	return l.b.Write(p)
}

func (l *lockedBuf) String() string {
	l.mu.Lock()
	defer l.mu.Unlock()
	return l.b.String()
}

func realRestartOnce(bin, db string, w *World) (map[string][]byte, map[string]int, bool, error) {
	// a port from a range of this process's own, below the kernel's ephemeral range: sixteen workers probing "any free port" and
	// binding it a little later kept handing each other the same ports
	port := 10000 + (int64(os.Getpid())*131+portCounter.Add(1)*7)%22000
	addr := fmt.Sprintf("127.0.0.1:%d", port)
	var se lockedBuf
	cmd := exec.Command(bin, "--listen", addr, "--metrics_listen", "", "--db_file", db+c06DBSuffix, "--private_key", w.WitKeys[0].Key.SignerString(),
		"--poll_interval", "0", "--logtostderr")
	cmd.Stderr = &se
	cmd.Env = append(os.Environ(), "VERIF_CHILD=", "VERIF_PROP=")
	if err := cmd.Start(); err != nil {
		return nil, nil, true, err
	}
	exited := make(chan struct{})
	go func() { cmd.Wait(); close(exited) }()
	defer func() {
		cmd.Process.Kill()
		<-exited
	}()
	hc := &http.Client{Timeout: 5 * time.Second}
	up := false
	for i := 0; i < 1000 && !up; i++ {
		// "up" means OUR process holds the port: it logs this line only after its net.Listen succeeded. A connection that succeeds
		// on its own proves nothing - another worker's binary may have taken the port between our probe and our start
		if strings.Contains(se.String(), "HTTP server goroutine started") {
			if c, err := net.DialTimeout("tcp", addr, 100*time.Millisecond); err == nil {
				c.Close()
				up = true
				break
			}
		}
		select {
		case <-exited:
			// a port that was taken in the meantime is the harness's problem (retry); anything else is the binary's
			return nil, nil, strings.Contains(se.String(), "failed to listen"), fmt.Errorf("the omniwitness binary exited during start-up: %s", se.String())
		case <-time.After(10 * time.Millisecond):
		}
	}
	if !up {
		return nil, nil, true, fmt.Errorf("the omniwitness binary did not accept connections on %s within 10 s: %s", addr, se.String())
	}
	out := map[string][]byte{}
	status := map[string]int{}
	for _, l := range w.Logs {
		resp, err := hc.Get("http://" + addr + "/witness/v0/logs/" + l.ID + "/checkpoint")
		if err != nil {
			return nil, nil, false, fmt.Errorf("GET from the restarted binary: %v (%s)", err, se.String())
		}
		b, _ := io.ReadAll(resp.Body)
		resp.Body.Close()
		status[l.ID] = resp.StatusCode
		if resp.StatusCode == 200 {
			out[l.ID] = b
		}
	}
	return out, status, false, nil
}

// childCoverArgs lets tools/reach.sh (a statement-reach measurement, not a check) collect coverage counters from child
// processes too: with VERIF_CHILD_COVERDIR set, children of a binary built with -cover write their counters there.
func childCoverArgs() []string {
	if d := os.Getenv("VERIF_CHILD_COVERDIR"); d != "" {
		return []string{"-test.gocoverdir=" + d}
	}
	return nil
}
