//go:build go1.25

package verifsim

import (
	"bytes"
	"context"
	"encoding/base64"
	"encoding/hex"
	"encoding/json"
	"fmt"
	"net/http"
	"net/http/httptest"
	"os"
	"os/exec"
	"path/filepath"
	"strconv"
	"strings"
	"syscall"
	"testing"
	"testing/synctest"
	"time"

	f_note "github.com/transparency-dev/formats/note"
	"github.com/transparency-dev/witness/internal/config"
	"github.com/transparency-dev/witness/internal/distribute/rest"
	"github.com/transparency-dev/witness/internal/feeder/bastion"
	"github.com/transparency-dev/witness/internal/persistence/inmemory"
	"github.com/transparency-dev/witness/internal/witness"
	"github.com/transparency-dev/witness/omniwitness"
	"golang.org/x/time/rate"
)

// ---------------------------------------------------------------- C19

var c19Feeders = []string{"sumdb", "tiles", "pixel", "rekor", "serverless", "distributor"}
var c19Sizes = []string{"normal", "0", "2^62", "2^62+5", "2^63-1", "2^63", "2^64-1"}
var c19Roots = []int{32, 0, 5, 33}
var c19Nets = []string{"", "", "trunc:9", "trunc:100", "oversize:3000000", "garbage:11", "status:500", "status:404", "status:301", "stall", "empty", "corrupt:3", "drop", "contentlength:4611686018427387904", "contentlength:3", "literal:0", "literal:x", "mixed", "mixed", "contentlength:4611686018427387904", "oversize:3000000"}

func c19Size(s string) uint64 {
	switch s {
	case "0":
		return 0
	case "2^62":
		return 1 << 62
	case "2^62+5":
		return 1<<62 + 5
	case "2^63-1":
		return 1<<63 - 1
	case "2^63":
		return 1 << 63
	case "2^64-1":
		return maxU64
	}
	return 300
}

// hostileLog serves one feeder type's protocol with a log-signed checkpoint of hostile size/root.
type hostileLog struct {
	kind     string
	stub     *tileStub
	cp       []byte
	tree     *RefTree
	size     uint64
	treeID   string
	variant  uint64 // which malformed body the serverless stub serves for tile requests
	inactive bool   // rekor: the configured tree is listed among the inactive shards
	honest   bool
}

// serverlessTile renders the tile tile/<level, 2 hex digits>/<index, 4+2+2+2 hex digits>[.<partial width, 2 hex digits>] of
// the serverless-log layout for a tree of the given size: a tile spans 8 tree levels over up to 256 hashes of tree level
// 8*level; the text is "32\n<width>\n" followed by one base64 line per slot of the in-order linearisation of the nodes
// above those hashes (slot of node (l, i) = 2^(l+1)*i + 2^l - 1); slots of subtrees that are not complete stay empty.
func serverlessTilePathOK(p string) bool {
	f := strings.Split(p, "/")
	if len(f) != 6 || f[0] != "tile" || len(f[1]) != 2 || len(f[2]) != 4 || len(f[3]) != 2 || len(f[4]) != 2 {
		return false
	}
	last, part, dotted := strings.Cut(f[5], ".")
	isHex := func(x string) bool {
		for _, c := range x {
			if !strings.ContainsRune("0123456789abcdef", c) {
				return false
			}
		}
		return true
	}
	return len(last) == 2 && (!dotted || len(part) == 2) && isHex(f[1]+f[2]+f[3]+f[4]+last+part)
}

// strict: the reader must ask for the full tile when the tree has one and for the exact partial width otherwise (a tree of
// fixed size); otherwise any width the tree can fill is served (a growing tree: the reader works from an older checkpoint).
func serverlessTile(tree *RefTree, size uint64, p string, strict bool) ([]byte, bool) {
	f := strings.Split(p, "/")
	if !serverlessTilePathOK(p) {
		return nil, false
	}
	last, part, _ := strings.Cut(f[5], ".")
	level, err1 := strconv.ParseUint(f[1], 16, 8)
	index, err2 := strconv.ParseUint(f[2]+f[3]+f[4]+last, 16, 64)
	n := uint64(256)
	var err3 error
	if part != "" {
		n, err3 = strconv.ParseUint(part, 16, 16)
	}
	if err1 != nil || err2 != nil || err3 != nil || level > 7 || n == 0 || n > 256 || len(last) != 2 {
		return nil, false
	}
	span := uint64(1) << (8 * level) // leaves under one bottom hash of this tile
	if index > (1<<62)/span/256 || (index*256+n)*span > size {
		return nil, false
	}
	if want := (size / span) % 256; strict && ((part == "") != ((size/span)/256 > index) || (part != "" && n != want)) {
		return nil, false // the reader asks for the full tile when there is one, and for the exact partial width otherwise
	}
	slots := make([][]byte, 2*n-1)
	for l := uint(0); l < 8; l++ {
		for i := uint64(0); (i+1)<<l <= n; i++ {
			lo := (index*256 + i<<l) * span
			h := tree.mth(lo, lo+span<<l)
			slots[(i<<(l+1))+(1<<l)-1] = h[:]
		}
	}
	var sb strings.Builder
	fmt.Fprintf(&sb, "32\n%d\n", n)
	for _, x := range slots {
		sb.WriteString(base64.StdEncoding.EncodeToString(x))
		sb.WriteByte('\n')
	}
	return []byte(sb.String()), true
}

func (h *hostileLog) ServeHTTP(rw http.ResponseWriter, rq *http.Request) {
	p := rq.URL.Path
	switch h.kind {
	case "sumdb":
		if p == "/latest" {
			rw.Write(h.cp)
			return
		}
		h.stub.ServeHTTP(rw, rq)
	case "tiles":
		if p == "/checkpoint" {
			rw.Write(h.cp)
			return
		}
		h.stub.ServeHTTP(rw, rq)
	case "serverless":
		if p == "/checkpoint" {
			rw.Write(h.cp)
			return
		}
		// honest cases, and three in fourteen of the hostile ones (the hostility is then in the checkpoint or the network), get
		// real tiles of the serverless layout; the rest a body of that format's general shape, or not
		if v := h.variant % 14; h.honest || v >= 11 {
			if b, ok := serverlessTile(h.tree, h.size, strings.TrimPrefix(p, "/"), true); ok {
				rw.Write(b)
			} else {
				http.NotFound(rw, rq)
			}
			return
		}
		rw.Write([]byte([]string{"not a serverless tile", "32", "32\n", "32\n5", "32\n5\n", "32\n2\nAAAA\n", "", "\n", "33\n1\n", "32\n65535\n", "32\n-1\n"}[h.variant%14]))
	case "pixel":
		if p == "/checkpoint.txt" {
			rw.Write(h.cp)
			return
		}
		// tile/1/<L>/<NNN>[.p/<W>]: height-1 tiles
		f := strings.Split(strings.TrimPrefix(p, "/"), "/")
		if len(f) >= 4 && f[0] == "tile" && f[1] == "1" {
			var l, n, w int
			w = 2
			// (strconv, not Sscan: Sscan reads "018" as an octal literal)
			l, _ = strconv.Atoi(f[2])
			n, _ = strconv.Atoi(strings.TrimSuffix(f[3], ".p"))
			if len(f) == 5 {
				w, _ = strconv.Atoi(f[4])
			}
			h.stub.mu.Lock()
			h.stub.size = h.size
			h.stub.mu.Unlock()
			if b, ok := h.stub.tile(1, l, int64(n), w); ok {
				rw.Write(b)
				return
			}
		}
		http.NotFound(rw, rq)
	case "rekor":
		switch {
		case p == "/api/v1/log":
			info := map[string]any{"signedTreeHead": string(h.cp), "treeID": h.treeID, "treeSize": 1, "rootHash": "00", "inactiveShards": []any{}}
			if h.inactive {
				// the configured tree is an inactive shard; the active one is some other tree
				info = map[string]any{"signedTreeHead": "other.example/log\n1\nAAAA\n\n\u2014 k AAAAAAAA\n", "treeID": "999", "treeSize": 1, "rootHash": "00",
					"inactiveShards": []any{map[string]any{"signedTreeHead": "x", "treeID": "555", "treeSize": 1, "rootHash": "00"}, map[string]any{"signedTreeHead": string(h.cp), "treeID": h.treeID, "treeSize": 1, "rootHash": "00"}}}
			}
			js, _ := json.Marshal(info)
			rw.Write(js)
		case p == "/api/v1/log/proof":
			var a, b uint64
			fmt.Sscan(rq.URL.Query().Get("firstSize"), &a)
			fmt.Sscan(rq.URL.Query().Get("lastSize"), &b)
			var hs []string
			if a > 0 && a < b && b <= 1<<40 {
				for _, x := range h.tree.ConsistencyProof(a, b) {
					hs = append(hs, hex.EncodeToString(x))
				}
			}
			js, _ := json.Marshal(map[string]any{"hashes": hs})
			rw.Write(js)
		default:
			http.NotFound(rw, rq)
		}
	}
}

type c19Case struct {
	Feeder  string `json:"feeder"`
	Size    string `json:"size"`
	Root    int    `json:"root"`
	Net     string `json:"net"` // fault for a seeded subset of requests
	NetSeed uint64 `json:"net_seed"`
	Seed    uint64 `json:"seed"`
	Prior   bool   `json:"prior"`            // the witness already holds an honest checkpoint of size 5
	Poll    bool   `json:"poll,omitempty"`   // polling mode: the feeder runs for 20 poll intervals
	Honest  bool   `json:"honest,omitempty"` // nothing hostile: the cycle must succeed
}

// TestC19Case runs one feeder (or distributor) cycle inside a bubble and prints how it ended. It is the
// entry point of the watchdogged child processes of C19.
func TestC19Case(t *testing.T) {
	js := os.Getenv("VERIF_C19_CASE")
	if js == "" {
		t.Skip("not a C19 child")
	}
	var c c19Case
	if err := json.Unmarshal([]byte(js), &c); err != nil {
		fmt.Println("RESULT harness-error", err)
		os.Exit(2)
	}
	res := "no-result"
	synctest.Test(t, func(t *testing.T) {
		res = c19Run(c)
		time.Sleep(2 * time.Minute)
		synctest.Wait()
	})
	fmt.Println("RESULT", res)
}

func c19Run(c c19Case) string {
	pinGlobalRand(c.Seed)
	p := &Plan{Seed: c.Seed, Cfg: Config{Dense: 512, WitKeys: []string{"ed:0", "cosig:0"}, Logs: []LogCfg{{Origin: "sim.example/hostile", Key: 0}}}}
	if c.Feeder == "sumdb" {
		p.Cfg.Logs[0].Origin = "go.sum database tree"
	}
	w := NewWorld(p)
	ld := w.Logs[0]
	tree := ld.Branches[0]
	known, _ := w.KnownLogs()
	signers, _ := w.Signers()
	realW, err := witness.New(witness.Opts{Persistence: inmemory.NewPersistence(), Signers: signers, KnownLogs: known})
	if err != nil {
		return "harness-error " + err.Error()
	}
	if c.Prior {
		h := tree.Root(5)
		text := CheckpointText(ld.Origin, 5, h[:])
		if _, err := realW.Update(context.Background(), ld.ID, 0, MakeNote(text, w.Sign(0, &SignedCP{Origin: ld.Origin, Size: 5, Root: h[:], Text: text})), nil); err != nil {
			return "harness-error seeding: " + err.Error()
		}
	}
	size := c19Size(c.Size)
	var root []byte
	if c.Root == 32 && size <= 1<<62 && c.Size == "normal" {
		h := tree.Root(size)
		root = h[:]
	} else {
		root = NewRng(c.Seed ^ 0x19).Bytes(c.Root)
	}
	text := CheckpointText(ld.Origin, size, root)
	cp := MakeNote(text, w.Sign(0, &SignedCP{Origin: ld.Origin, Size: size, Root: root, Branch: -1, Text: text}))
	sn := NewSimNet()
	sn.FaultFn = func(class string, occ int) string {
		if c.Net == "" {
			return ""
		}
		if h := splitmix(strHash(class) ^ uint64(occ) ^ c.NetSeed); h%3 == 0 {
			if c.Net == "mixed" {
				// every faulted request gets a fault of its own (a 404 for one tile and a truncated body for the next)
				k := c19Nets[2+(h/3)%15] // one of the single kinds
				if k == "literal:x" {
					k = "literal:1"
				}
				return k
			}
			return c.Net
		}
		return ""
	}
	hc := &http.Client{Transport: sn, Timeout: 10 * time.Second}
	ctx, cancel := context.WithTimeout(context.Background(), 2*time.Minute)
	defer cancel()
	if c.Feeder == "distributor" {
		witV, _ := f_note.NewVerifierForCosignatureV1(w.WitKeys[1].Key.VerifierString())
		cl, _ := config.NewLog(ld.Origin, ld.Key.VerifierString(), "http://unused/")
		sn.Hosts["distributor.example"] = http.HandlerFunc(func(rw http.ResponseWriter, rq *http.Request) { rw.Write([]byte("ok")) })
		d, err := rest.NewDistributor("http://distributor.example", hc, []config.Log{cl}, witV, omniwitness.VerifWitnessAdapter(realW))
		if err != nil {
			return "harness-error " + err.Error()
		}
		err = d.DistributeOnce(ctx)
		return fmt.Sprintf("ended err=%v", err != nil)
	}
	host := "hostile.example"
	st := &tileStub{tree: tree, origin: ld.Origin, key: ld.Key, world: w, keyIdx: 0, kind: c.Feeder, size: size}
	if size > 1<<40 {
		st.size = 1 << 20
	}
	hl := &hostileLog{kind: c.Feeder, stub: st, cp: cp, tree: tree, size: st.size, treeID: "1234", variant: c.NetSeed / 7, inactive: c.Honest && c.NetSeed%2 == 0, honest: c.Honest}
	sn.Hosts[host] = hl
	u := "http://" + host
	var ff omniwitness.Feeder
	switch c.Feeder {
	case "sumdb":
		ff = omniwitness.SumDB
	case "tiles":
		ff, u = omniwitness.Tiles, u+"/"
	case "pixel":
		ff, u = omniwitness.Pixel, u+"/"
	case "serverless":
		ff, u = omniwitness.Serverless, u+"/"
	case "rekor":
		ff, u = omniwitness.Rekor, u+"/?treeID=1234"
	}
	cl, err := config.NewLog(ld.Origin, ld.Key.VerifierString(), u)
	if err != nil {
		return "harness-error " + err.Error()
	}
	if c.Poll {
		// polling mode, http client configured as cmd/omniwitness configures it (10 s overall timeout). A client without any
		// timeout is not used: the unchanged SumDB client does not pass its context to its requests, so with such a client a
		// stalled sum database already holds the unchanged feeder for ever - outside what the shipped binary can be configured to do
		const interval = 30 * time.Second
		pctx, pcancel := context.WithTimeout(context.Background(), 20*interval)
		defer pcancel()
		err = ff.FeedFunc()(pctx, cl, omniwitness.VerifWitnessAdapter(realW), hc, interval)
		cycles := 0
		for _, q := range sn.Requests() {
			path, _, _ := strings.Cut(q.Path, "?")
			switch path {
			case "/latest", "/checkpoint", "/checkpoint.txt", "/api/v1/log":
				cycles++
			}
		}
		return fmt.Sprintf("ended err=%v cycles=%d", err != nil, cycles)
	}
	err = ff.FeedFunc()(ctx, cl, omniwitness.VerifWitnessAdapter(realW), hc, 0)
	if os.Getenv("VERIF_DEBUG") != "" {
		fmt.Println("DEBUG feeder error:", err)
		for _, q := range sn.Requests() {
			fmt.Println("DEBUG request:", q.Method, q.Path)
		}
	}
	return fmt.Sprintf("ended err=%v", err != nil)
}

// panicFingerprint names where a crash happened: "/<function of the first frame outside the runtime>/<panic message>", so that
// a known crash can be told from any other crash of the same feeder.
func panicFingerprint(out string) string {
	msg, fn := "", ""
	lines := strings.Split(out, "\n")
	for i, l := range lines {
		if msg == "" && strings.HasPrefix(l, "panic: ") {
			msg = strings.TrimPrefix(l, "panic: ")
			if j := strings.Index(msg, " [recovered"); j >= 0 {
				msg = msg[:j]
			}
			if j := strings.Index(msg, "\n"); j >= 0 {
				msg = msg[:j]
			}
		}
		if fn == "" && msg != "" && strings.HasPrefix(l, "goroutine ") && strings.Contains(l, "[running") {
			for _, f := range lines[i+1:] {
				if strings.HasPrefix(f, "\t") || f == "" {
					continue
				}
				name := f
				if j := strings.LastIndex(name, "("); j > 0 {
					name = name[:j]
				}
				if strings.HasPrefix(name, "runtime.") || name == "panic" || strings.HasPrefix(name, "testing.") || strings.HasPrefix(name, "internal/synctest") || strings.HasPrefix(name, "runtime/") {
					continue
				}
				fn = name
				break
			}
		}
	}
	if len(msg) > 80 {
		msg = msg[:80]
	}
	return "/" + fn + "/" + msg
}

type c19Outcome struct {
	kind   string // ended | hang | panic | harness
	detail string
}

func c19Spawn(c c19Case, wall time.Duration) c19Outcome {
	exe := os.Getenv("VERIF_BIN")
	if exe == "" {
		exe, _ = os.Executable()
	}
	js, _ := json.Marshal(c)
	cmd := exec.Command(exe, append([]string{"-test.run", "^TestC19Case$", "-test.timeout", "10m"}, childCoverArgs()...)...)
	cmd.Env = append(os.Environ(), "VERIF_PROP=", "VERIF_C19_CASE="+string(js))
	var so bytes.Buffer
	cmd.Stdout, cmd.Stderr = &so, &so
	if err := cmd.Start(); err != nil {
		return c19Outcome{"harness", err.Error()}
	}
	done := make(chan error, 1)
	go func() { done <- cmd.Wait() }()
	select {
	case err := <-done:
		outS := so.String()
		if i := strings.Index(outS, "RESULT ended"); i >= 0 && err == nil {
			line, _, _ := strings.Cut(outS[i:], "\n")
			return c19Outcome{"ended", line}
		}
		if strings.Contains(outS, "panic:") || strings.Contains(outS, "fatal error:") || strings.Contains(outS, "[recovered") {
			if len(outS) > 3000 {
				outS = outS[:3000]
			}
			return c19Outcome{"panic", outS}
		}
		if len(outS) > 2000 {
			outS = outS[len(outS)-2000:]
		}
		return c19Outcome{"harness", fmt.Sprintf("child ended abnormally (%v): %s", err, outS)}
	case <-time.After(wall):
		_ = cmd.Process.Signal(syscall.SIGKILL)
		<-done
		return c19Outcome{"hang", fmt.Sprintf("no result after %v of wall-clock time (a case of this kind normally takes a few milliseconds; simulated timeouts cannot explain it: the clock is fake)", wall)}
	}
}

func init() {
	register(&Scenario{
		Prop:  "C19",
		Level: "exploration",
		Rule:  "three batches by run number. service: the C14 Main-level world with scripts in which logs go backwards, fork and answer with faults; omniwitness.Main must not return on its own (process exit). endpoint: request bodies up to and beyond 16 KiB built by structure-aware seeded mutation of valid requests of every verdict class (byte flips, truncation, line surgery, junk, oversize) plus random bytes, delivered through the chunking/failing reader to the real handler in front of the real witness, and arbitrary bytes to Proof.Unmarshal: no panic, a documented status. peers: one cycle of each real feeder (sumdb, tiles, pixel, rekor, serverless) and of the distributor, in a child process running a synctest bubble, against a stub peer that serves the reference tree in that feeder's own layout (for serverless also eleven malformed tile bodies) and whose log-signed checkpoint has size in {300, 0, 2^62, 2^62+5, 2^63-1, 2^63, 2^64-1} and a root of 32/0/5/33 bytes and whose responses suffer a seeded fault (truncation, 3 MB oversize, garbage, 5xx/404/301, stall past the timeout, empty, corruption, drop); the cycle must end with a result or an error; a CPU spin freezes a bubble, so the parent holds a wall-clock watchdog of 8 s (>= 1000x the normal cost) whose expiry is the violation. Seeded, structure-aware, not coverage-guided. non-trivial = a mutated body that got past the size line, or a peer case with a hostile size/root or a fault; distinct = distinct (status, mutation kind) and (feeder, size class, root length, fault kind, outcome)",
		Gen: func(r *Rng, tier string, n uint64) *Plan {
			p := &Plan{Scenario: "hostile"}
			p.Cfg = Config{Store: "mem", Dense: 64, WitKeys: []string{"ed:0", "cosig:0"}, Logs: []LogCfg{{Origin: "sim.example/h0", Key: 0, Forks: []ForkCfg{{Parent: 0, At: 1}}}}, Extra: map[string]int64{}, Notes: map[string]string{}}
			if n%8 == 6 {
				// the assembled service against logs that misbehave (go backwards, fork, serve garbage): it must not exit
				q := scenarios["C14"].Gen(r, tier, n)
				q.Scenario = "hostile-main"
				if q.Cfg.Notes == nil {
					q.Cfg.Notes = map[string]string{}
				}
				q.Cfg.Notes["mode"] = "main"
				q.Ops = append(q.Ops, Op{K: "fork", L: r.IntN(len(q.Cfg.Logs)), M: Pick(r, "smaller", "same", "larger"), MV: r.Uint64(), D: uint64(r.IntN(50))})
				q.Ops = append(q.Ops, Op{K: "grow", L: r.IntN(len(q.Cfg.Logs)), D: uint64(r.Range(1, 300))})
				return q
			}
			if n%2 == 0 {
				p.Cfg.Notes["mode"] = "endpoint"
				p.Cfg.Store = Pick(r, "mem", "sqlite")
				return p
			}
			p.Cfg.Notes["mode"] = "peers"
			k := (n / 2)
			// sweep the hostile size x root matrix systematically, faults seeded
			c := c19Case{Feeder: c19Feeders[k%uint64(len(c19Feeders))], Seed: r.Uint64(), NetSeed: r.Uint64(), Prior: true}
			k /= uint64(len(c19Feeders))
			c.Size = c19Sizes[k%uint64(len(c19Sizes))]
			k /= uint64(len(c19Sizes))
			c.Root = c19Roots[k%uint64(len(c19Roots))]
			c.Net = Pick(r, c19Nets...)
			if c.Net == "literal:x" {
				c.Net = fmt.Sprintf("literal:%d", r.Range(1, 9))
			}
			if r.Chance(0.1) {
				c.Prior = false
			}
			if r.Chance(0.12) {
				// an honest peer, for contrast: nothing hostile at all, so the cycle must end WITHOUT an error (for the rekor feeder the
				// configured tree is one of the log's inactive shards half of the time)
				c.Size, c.Root, c.Net, c.Prior, c.Honest = "normal", 32, "", true, true
			}
			if c.Feeder != "distributor" && !c.Honest && r.Chance(0.25) {
				// polling mode against a log that answers, but slowly or never, on some requests
				c.Poll, c.Size, c.Root, c.Prior = true, "normal", 32, true
				c.Net = Pick(r, "stall", "stall", "stall", "delay:45000", "status:500", "trunc:7")
			}
			js, _ := json.Marshal(c)
			p.Cfg.Notes["case"] = string(js)
			return p
		},
		Run: func(t *testing.T, p *Plan) *Outcome {
			out := &Outcome{Stats: newStats()}
			if p.Cfg.Notes["mode"] == "main" {
				r := c14Exec(t, p)
				if r.infra != "" {
					out.Infra = []string{r.infra}
					return out
				}
				out.Stats, out.Events, out.Hung = r.stats, r.events, r.hung
				for _, v := range r.viol {
					if strings.Contains(v.Sig, "main_exited") || strings.Contains(v.Sig, "main_did_not_stop") {
						out.Viol = append(out.Viol, Violation{Class: "exit", Sig: "exit/main", Detail: "hostile-log script against the assembled service: " + v.Detail})
					}
					if strings.Contains(v.Sig, "blocked_goroutines_at_end") || strings.Contains(v.Sig, "read_failed") || strings.Contains(v.Sig, "never_distributed") || strings.Contains(v.Sig, "service_hung") {
						out.Viol = append(out.Viol, Violation{Class: "hang", Sig: "hang/service/" + v.Sig, Detail: "hostile-log script against the assembled service: " + v.Detail})
					}
				}
				out.Stats.Probes["main_level_hostile_scripts"]++
				out.Distinct = []string{"main/" + p.Cfg.Notes["feeders"] + "/" + fmt.Sprint(len(p.Ops))}
				return out
			}
			if p.Cfg.Notes["mode"] == "peers" {
				var c c19Case
				if err := json.Unmarshal([]byte(p.Cfg.Notes["case"]), &c); err != nil {
					out.Infra = []string{err.Error()}
					return out
				}
				o := c19Spawn(c, 8*time.Second)
				sizeClass := c.Size
				out.Events = []string{p.Cfg.Notes["case"], o.kind}
				out.Stats.Probes["peer_case_"+o.kind]++
				if c.Net != "" {
					out.Stats.Fired["net/"+strings.SplitN(c.Net, ":", 2)[0]]++
				}
				if c.Size != "normal" || c.Root != 32 || c.Net != "" {
					out.Distinct = []string{fmt.Sprintf("%s/%s/%d/%s/%s", c.Feeder, sizeClass, c.Root, strings.SplitN(c.Net, ":", 2)[0], o.kind)}
				}
				if o.kind == "ended" && c.Honest {
					out.Stats.Probes["honest_peer/"+c.Feeder+"/"+strings.TrimPrefix(o.detail, "RESULT ended ")]++
				}
				if c.Poll && o.kind == "ended" {
					cycles := -1
					if i := strings.Index(o.detail, "cycles="); i >= 0 {
						fmt.Sscanf(o.detail[i:], "cycles=%d", &cycles)
					}
					out.Stats.Probes["polling_cases"]++
					out.Stats.Probes[fmt.Sprintf("polling_cycles_%02d", cycles)]++
					if cycles < 8 {
						// every cycle is bounded by the poll interval, so 20 intervals see close to 20 cycles start; a request the per-cycle
						// timeout does not reach holds its cycle (and all later ones) up
						out.Viol = []Violation{{Class: "hang", Sig: fmt.Sprintf("hang/cycle_outlives_its_timeout/feeder=%s", c.Feeder), Detail: fmt.Sprintf("%s feeder polling every 30s for 20 intervals against a log with fault %q on a third of its responses (http client timeout 10s): only %d cycles started - cycles hang beyond their timeouts or polling has slowed down for good", c.Feeder, c.Net, cycles)}}
					}
				}
				switch o.kind {
				case "hang":
					cls := "other"
					if c.Size == "2^62" || c.Size == "2^62+5" || c.Size == "2^63-1" {
						cls = "2^62..2^63"
					}
					out.Viol = []Violation{{Class: "hang", Sig: fmt.Sprintf("hang/feeder=%s/size_class=%s", c.Feeder, cls), Detail: fmt.Sprintf("one %s cycle against a peer with log-signed size %s, a %d-byte root and fault %q: %s", c.Feeder, c.Size, c.Root, c.Net, o.detail)}}
				case "panic":
					out.Viol = []Violation{{Class: "panic", Sig: "panic/" + c.Feeder + panicFingerprint(o.detail), Detail: fmt.Sprintf("one %s cycle (size %s, %d-byte root, fault %q) crashed the process:\n%s", c.Feeder, c.Size, c.Root, c.Net, o.detail)}}
				case "harness":
					out.Infra = []string{o.detail}
				}
				out.Sample = map[string]any{"case": c, "outcome": o.kind}
				return out
			}
			// endpoint batch
			w := NewWorld(p)
			ld := w.Logs[0]
			known, _ := w.KnownLogs()
			signers, _ := w.Signers()
			// half of the runs on file-backed SQLite with the production one-connection pool: there a request that leaves a
			// transaction open leaves every later request unanswered
			store, closeStore, err := openStoreFor(p)
			if err != nil {
				out.Infra = []string{err.Error()}
				return out
			}
			defer closeStore()
			realW, err := witness.New(witness.Opts{Persistence: store, Signers: signers, KnownLogs: known})
			if err != nil {
				out.Infra = []string{err.Error()}
				return out
			}
			// serve delivers one request and reports false if it was not answered within 10 s of wall-clock time
			serve := func(rec *httptest.ResponseRecorder, hr *http.Request, hh http.Handler) (answered bool, pan any) {
				done := make(chan struct{})
				go func() {
					defer close(done)
					defer func() { pan = recover() }()
					hh.ServeHTTP(rec, hr)
				}()
				select {
				case <-done:
					return true, pan
				case <-time.After(10 * time.Second):
					return false, nil
				}
			}
			witV, _ := f_note.NewVerifierForCosignatureV1(w.WitKeys[1].Key.VerifierString())
			cl, _ := config.NewLog(ld.Origin, ld.Key.VerifierString(), "http://unused/")
			h := http.MaxBytesHandler(bastion.VerifNewHandler(bastion.Config{Logs: []config.Log{cl}, WitnessVerifier: witV, Limits: bastion.RequestLimits{TotalPerSecond: rate.Limit(1e9)}},
				omniwitness.VerifWitnessAdapter(realW)), 16*1024)
			r := NewRng(p.Seed ^ 0xc19)
			tracked := Stored{}
			pf := Profile{Adversarial: 0.6, Mutations: 0.3, BigSizes: true}
			only := int(p.Cfg.Extra["only"]) - 1
			for i := 0; i < 60; i++ {
				op := genUpdate(r, pf, 0, 2)
				if op.M == "unknownlog" || op.M == "crosslog" || op.M == "xsig_unknown" || op.M == "prime_other" {
					op.M = ""
				}
				if (i == 0 || r.Chance(0.05)) && r.Chance(0.5) {
					// a genuine checkpoint padded with junk signature lines up to the note format's limit
					op = Op{K: "update", L: 0, D: uint64(r.Range(1, 5)), M: "xsig_unknown", MV: uint64(r.Range(95, 100))}
				}
				req := resolveUpdate(w, op, tracked)
				body := wireBody(req.Old, req.Proof, req.CP)
				mut := "none"
				ms := r.Uint64()
				switch r.IntN(7) {
				case 6:
					// an origin line the endpoint does not know and that is not valid UTF-8 (it ends up in log lines and metric labels)
					mut = "badorigin"
					bad := Pick(r, "\xff", "log-\xf8-latin1", "\xc3\x28", "a\x00b", "\xed\xa0\x80")
					if r.Chance(0.4) {
						// ... or is valid UTF-8 but long, with multi-byte characters sitting across every round byte offset (whoever
						// cuts it to a length in bytes cuts a character in two)
						k := Pick(r, 15, 31, 63, 127, 255, 1023)
						bad = strings.Repeat("a", k) + strings.Repeat("\u00e9\u20ac\U0001F512", 1+r.IntN(200))
					}
					body = wireBody(req.Old, nil, []byte(bad+"\n5\nAAAA\n\n\xe2\x80\x94 k AAAAAAAA\n"))
				case 0:
				case 1, 2:
					mut = "bytes"
					for k := 0; k < 1+r.IntN(3); k++ {
						body = mutateBytes(body, ms+uint64(k))
					}
				case 3:
					mut = "pad"
					body = append(body, bytes.Repeat([]byte{byte(r.Uint32())}, r.Range(1, 40000))...)
				case 4:
					mut = "random"
					body = r.Bytes(r.Range(0, 20000))
				default:
					mut = "manylines"
					body = append([]byte("old 5\n"), bytes.Repeat([]byte("AAAA\n"), r.Range(1, 4000))...)
				}
				endAt, errAt := -1, -1
				switch r.IntN(5) {
				case 0:
					endAt = r.IntN(len(body) + 1)
				case 1:
					errAt = r.IntN(len(body) + 1)
				}
				chunk := Pick(r, 1, 3, 64, 4096)
				cs := r.Uint64()
				if only >= 0 && i != only {
					// keep the witness state in step with the full run
					if mut == "none" && endAt < 0 && errAt < 0 {
						rec := httptest.NewRecorder()
						if ok, _ := serve(rec, httptest.NewRequest(http.MethodPost, "/", bytes.NewReader(body)), h); !ok {
							out.Infra = []string{"replay: an earlier request was not answered"}
							return out
						}
						if cur, err := realW.GetCheckpoint(ld.ID); err == nil {
							tracked = parseStored(cur)
						}
					}
					continue
				}
				rec := httptest.NewRecorder()
				hr := httptest.NewRequest(http.MethodPost, "/", &faultyReader{data: body, chunks: NewRng(cs), maxChunk: chunk, endAt: endAt, errAt: errAt})
				hr.ContentLength = -1
				answered, pan := serve(rec, hr, h)
				out.Evals++
				if !answered {
					q := p.Clone()
					q.Cfg.Extra["only"] = int64(i + 1)
					out.FailPlan = q
					out.Hung = true
					out.Events = []string{fmt.Sprintf("request %d mut=%s", i, mut)}
					out.Viol = []Violation{{Class: "hang", Sig: "hang/endpoint", Detail: fmt.Sprintf("request %d (mutation %s, %d bytes) to the add-checkpoint endpoint (store %s) was not answered within 10 s of wall-clock time; an earlier request of this run has left the witness unable to serve", i, mut, len(body), p.Cfg.Store)}}
					return out
				}
				code := rec.Code
				if pan != nil || !documentedStatuses[code] {
					q := p.Clone()
					q.Cfg.Extra["only"] = int64(i + 1)
					out.FailPlan = q
					out.Events = []string{fmt.Sprintf("request %d mut=%s", i, mut)}
					if pan != nil {
						out.Viol = []Violation{{Class: "panic", Sig: "panic/endpoint", Detail: fmt.Sprintf("request %d (mutation %s, %d bytes, stream end=%d err=%d) made the handler panic: %v", i, mut, len(body), endAt, errAt, pan)}}
					} else {
						out.Viol = []Violation{{Class: "undocumented_status", Sig: fmt.Sprintf("undocumented_status/%d", code), Detail: fmt.Sprintf("request %d (mutation %s, %d bytes) was answered %d", i, mut, len(body), code)}}
					}
					return out
				}
				if cur, err := realW.GetCheckpoint(ld.ID); err == nil {
					tracked = parseStored(cur)
				}
				out.Distinct = append(out.Distinct, fmt.Sprintf("%d/%s/%v", code, mut, endAt >= 0 || errAt >= 0))
				out.Stats.Probes[fmt.Sprintf("endpoint_status_%d", code)]++
				// arbitrary bytes as a proof
				func() {
					defer func() {
						if x := recover(); x != nil {
							out.Viol = []Violation{{Class: "panic", Sig: "panic/proof_unmarshal", Detail: fmt.Sprintf("Proof.Unmarshal panicked on %d bytes: %v", len(body), x)}}
						}
					}()
					var pr witness.Proof
					_ = pr.Unmarshal(body)
					_ = pr.Unmarshal(mutateBytes([]byte("AAAA\nBBBB\n"), ms))
				}()
				if len(out.Viol) > 0 {
					return out
				}
			}
			out.Sample = map[string]any{"mode": "endpoint", "requests": 60}
			return out
		},
		Components: map[string]string{
			"bastion add-checkpoint handler (+16 KiB cap) + witnessAdapter + witness, Proof.Unmarshal": "real, in-process, with a recover around each delivery",
			"feeders sumdb / tiles / pixel / rekor / serverless (one cycle each), rest.Distributor":    "real, each case in a child process inside a synctest bubble",
			"peers":                   "harness stubs speaking each feeder's protocol with log-signed hostile checkpoints; simnet faults",
			"watchdog":                "parent process, 8 s wall clock per case (the bubble's clock is fake, so only a CPU spin or a real deadlock can exhaust it)",
			"coverage-guided fuzzing": "not used (different technique); seeded structure-aware mutation instead",
		},
		Assumptions: []string{"which status is right for a given body is C10's business; here any documented status passes", "the serverless stub serves a valid checkpoint and unparseable tiles (the serverless tile format is not re-implemented)"},
	})
}

var _ = filepath.Join
