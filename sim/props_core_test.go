package verifsim

import (
	"encoding/base64"
	"fmt"
	"regexp"
	"sort"
	"strings"
	"testing"
)

// baseOutcome executes a plan on Engine W and converts engine-level findings.
// wedgeIsViolation says whether a wedge is this property's business.
func baseOutcome(t *testing.T, p *Plan, wedgeIsViolation bool) (*RunResult, *Outcome) {
	res := Execute(t, p)
	out := &Outcome{Stats: res.Stats, SchedHash: res.SchedHash, Infra: res.Infra, Events: res.EvLog, Hung: res.Hung}
	if out.Stats.Fired == nil {
		out.Stats = newStats()
	}
	for _, v := range res.Viol {
		switch {
		case v.Class == "wedge" && wedgeIsViolation:
			v.Property = p.Property
			out.Viol = append(out.Viol, v)
		default:
			out.Infra = append(out.Infra, v.Class+": "+v.Detail)
		}
	}
	return res, out
}

func short(b []byte) string {
	s := string(b)
	if len(s) > 60 {
		s = s[:60] + "..."
	}
	return fmt.Sprintf("%q", s)
}

func cpBrief(st Stored) string {
	if !st.Has {
		return "none"
	}
	if st.Bad {
		return "unparsable"
	}
	return fmt.Sprintf("size=%d root=%s", st.Size, base64.StdEncoding.EncodeToString(st.Root))
}

// opSummary is the per-op abstract of a history used for samples and distinctness.
func opSummary(r *OpRec) string {
	switch r.Op.K {
	case "update":
		return fmt.Sprintf("upd(%s)->%s", r.Req.Desc, r.Class)
	case "read":
		if r.Err != nil {
			return "read->err"
		}
		return "read->ok"
	case "jump":
		return fmt.Sprintf("jump(%dms)", r.Op.Ms)
	}
	return r.Op.K
}

func histSample(p *Plan, res *RunResult) any {
	var ops []string
	for _, r := range res.Hist {
		ops = append(ops, opSummary(r))
	}
	return map[string]any{"seed": p.Seed, "store": p.Cfg.Store, "seam": p.Cfg.Seam, "logs": len(p.Cfg.Logs), "clients": p.Cfg.Clients,
		"wit_keys": p.Cfg.WitKeys, "faults": p.Faults, "history": ops}
}

// abstractKey describes a run by what happened in it, not by its inputs.
func abstractKey(res *RunResult) string {
	var sb strings.Builder
	sb.WriteString(res.Plan.Cfg.Store)
	for _, r := range res.Hist {
		if r.Op.K != "update" {
			sb.WriteString("|" + r.Op.K)
			continue
		}
		rel := "="
		switch {
		case !r.StBefore.Has:
			rel = "first"
		case r.Req.Size > r.StBefore.Size:
			rel = ">"
		case r.Req.Size < r.StBefore.Size:
			rel = "<"
		}
		fmt.Fprintf(&sb, "|%d:%s:%s:%s:%s:%s:%d", r.Req.LogIdx, rel, r.Op.Old, r.Op.P, r.Op.M, r.Class, len(r.Fired))
	}
	return sb.String()
}

// ---------------------------------------------------------------- C01

func setsByLog(res *RunResult) map[string][]SetRec {
	m := map[string][]SetRec{}
	for _, s := range res.Sets {
		m[s.LogID] = append(m[s.LogID], s)
	}
	return m
}

func oracleC01(res *RunResult) []Violation {
	var out []Violation
	for id, seq := range setsByLog(res) {
		ld := res.W.LogByID(id)
		if ld == nil {
			continue // C02's business
		}
		var prev Stored
		for i, s := range seq {
			cur := parseStored(s.Bytes)
			if cur.Bad {
				out = append(out, Violation{Class: "unparsable_cosigned", Sig: "unparsable_cosigned", OpIdx: s.OpIdx,
					Detail: fmt.Sprintf("log %d: witness stored bytes that do not parse as a checkpoint note: %s", ld.Idx, short(s.Bytes))})
				break
			}
			if i > 0 {
				if ok, why := res.W.Compatible(ld.Idx, prev.Size, prev.Root, cur.Size, cur.Root); !ok {
					how := "?"
					for _, r := range res.Hist {
						if r.Idx == s.OpIdx && r.Req != nil {
							how = r.Req.Desc
						}
					}
					out = append(out, Violation{Class: why, Sig: why, OpIdx: s.OpIdx,
						Detail: fmt.Sprintf("log %d cosigned {%s} and then {%s} (accepted request: %s)", ld.Idx, cpBrief(prev), cpBrief(cur), how)})
					break
				}
			}
			prev = cur
		}
	}
	// the checkpoints handed out as accepted, in the order the calls returned (meaningful when one operation is in flight at a time)
	if res.Plan.Cfg.Clients <= 1 {
		handed := map[string]Stored{}
		for _, r := range res.Hist {
			if r.Op.K != "update" || r.Class != "accept" || r.Req == nil {
				continue
			}
			ld := res.W.LogByID(r.Req.LogID)
			if ld == nil {
				continue
			}
			cur := parseStored(r.Out)
			if cur.Bad {
				continue
			}
			if prev, ok := handed[r.Req.LogID]; ok {
				if ok2, why := res.W.Compatible(ld.Idx, prev.Size, prev.Root, cur.Size, cur.Root); !ok2 {
					out = append(out, Violation{Class: why, Sig: why + "/handed_out", OpIdx: r.Idx,
						Detail: fmt.Sprintf("log %d: the witness handed out a cosigned {%s} and later a cosigned {%s} (request: %s; faults hit: %v)", ld.Idx, cpBrief(prev), cpBrief(cur), r.Req.Desc, r.Fired)})
				}
			}
			handed[r.Req.LogID] = cur
		}
	}
	if res.Plan.Cfg.Clients > 1 {
		// several operations in flight: the order of returns means nothing, but any two checkpoints handed out as accepted
		// for one log lie on one append-only history - one of them extends the other
		type ho struct {
			st  Stored
			idx int
		}
		byLog := map[string][]ho{}
		for _, r := range res.Hist {
			if r.Op.K == "update" && r.Class == "accept" && r.Req != nil && res.W.LogByID(r.Req.LogID) != nil {
				if st := parseStored(r.Out); !st.Bad {
					byLog[r.Req.LogID] = append(byLog[r.Req.LogID], ho{st, r.Idx})
				}
			}
		}
		for id, hs := range byLog {
			ld := res.W.LogByID(id)
		pairs:
			for i := range hs {
				for j := i + 1; j < len(hs); j++ {
					ok1, why := res.W.Compatible(ld.Idx, hs[i].st.Size, hs[i].st.Root, hs[j].st.Size, hs[j].st.Root)
					ok2, _ := res.W.Compatible(ld.Idx, hs[j].st.Size, hs[j].st.Root, hs[i].st.Size, hs[i].st.Root)
					if !ok1 && !ok2 {
						out = append(out, Violation{Class: why, Sig: why + "/handed_out_concurrently", OpIdx: hs[j].idx,
							Detail: fmt.Sprintf("log %d: ops %d and %d were both answered accepted, with cosigned {%s} and {%s}: neither extends the other", ld.Idx, hs[i].idx, hs[j].idx, cpBrief(hs[i].st), cpBrief(hs[j].st))})
						break pairs
					}
				}
			}
		}
	}
	// what GetCheckpoint serves after each step must walk the same history
	served := map[string]Stored{}
	for _, r := range res.Hist {
		if r.Op.K != "update" || r.ReadBack == nil || r.Req == nil {
			continue
		}
		ld := res.W.LogByID(r.Req.LogID)
		if ld == nil {
			continue
		}
		cur := parseStored(r.ReadBack)
		if cur.Bad {
			continue
		}
		if prev, ok := served[r.Req.LogID]; ok {
			if ok2, why := res.W.Compatible(ld.Idx, prev.Size, prev.Root, cur.Size, cur.Root); !ok2 {
				out = append(out, Violation{Class: why, Sig: why + "/served", OpIdx: r.Idx,
					Detail: fmt.Sprintf("log %d served {%s} and later {%s}", ld.Idx, cpBrief(prev), cpBrief(cur))})
			}
		}
		served[r.Req.LogID] = cur
	}
	return out
}

func c01Profile(r *Rng, tier string) Profile {
	pf := Profile{MaxLogs: 2, ShareKeys: true, MinOps: 3, MaxOps: 14, Adversarial: 0.55, Mutations: 0.1, BigSizes: r.Chance(0.3), Reads: 0.03}
	if tier == "thorough" {
		pf.MaxOps = 40
	}
	return pf
}

func addFaults(r *Rng, p *Plan, rate float64) {
	// fail-stop storage faults on a dry list of likely seam keys; occurrence numbers are per task and call
	calls := []string{"WriteOps", "W.GetLatest", "W.Set", "W.Close"}
	kinds := map[string][]string{"WriteOps": {"fail"}, "W.GetLatest": {"unavailable", "plain", "conndone", "internal"}, "W.Set": {"fail"}, "W.Close": {"fail"}}
	nClients := max(1, p.Cfg.Clients)
	for c := 0; c < nClients; c++ {
		for occ := 0; occ < len(p.Ops); occ++ {
			for _, call := range calls {
				if r.Chance(rate) {
					p.Faults = append(p.Faults, Fault{At: fmt.Sprintf("c%d:%s#%d", c, call, occ), Kind: Pick(r, kinds[call]...)})
				}
			}
		}
	}
}

// drvKind draws what the database driver reports at a faulted operation: a generic failure, or SQLite's own errors for a
// database locked by another connection beyond the busy timeout, an I/O error and a full disk.
func drvKind(r *Rng) string {
	return Pick(r, "fail", "fail", "busy", "busy", "locked", "ioerr", "full")
}

// lastWriteWins: at rest every log holds the last write its store reported as done (a refused request left nothing behind).
func lastWriteWins(res *RunResult) []Violation {
	var out []Violation
	if res.FinalSnap == nil || res.FinalSnap.Err != "" {
		return nil
	}
	for id, seq := range setsByLog(res) {
		if got := res.FinalSnap.CP[id]; got != string(seq[len(seq)-1].Bytes) {
			out = append(out, Violation{Class: "state_changed_on_refusal", Sig: "state_changed_on_refusal/at_rest/not_last_write", OpIdx: -1,
				Detail: fmt.Sprintf("at rest the store holds %s for %s, the last write it reported as done was %s", short([]byte(got)), id[:8], short(seq[len(seq)-1].Bytes))})
		}
	}
	for id := range res.FinalSnap.CP {
		if len(setsByLog(res)[id]) == 0 {
			out = append(out, Violation{Class: "state_changed_on_refusal", Sig: "state_changed_on_refusal/at_rest/stored_without_write", OpIdx: -1,
				Detail: fmt.Sprintf("at rest the store holds a checkpoint for %s although no write for it was ever reported as done", id[:8])})
		}
	}
	return out
}

func sameOpButClient(a, b Op) bool {
	a.C, b.C = 0, 0
	return a == b
}

func makeConcurrent(r *Rng, p *Plan) {
	p.Cfg.Seam = "iface"
	p.Cfg.Clients = r.Range(2, 4)
	for i := range p.Ops {
		p.Ops[i].C = r.IntN(p.Cfg.Clients)
	}
	switch r.IntN(4) {
	case 0:
		p.Cfg.Strategy = "pct"
		p.Cfg.Prio = r.Perm(p.Cfg.Clients)
		for i := 0; i < r.Range(0, 3); i++ {
			p.Cfg.ChangeAt = append(p.Cfg.ChangeAt, r.Range(1, 6*len(p.Ops)+2))
		}
	case 1:
		p.Cfg.Strategy = "hold"
		p.Cfg.Hold = r.IntN(p.Cfg.Clients)
	default:
		p.Cfg.Strategy = "uniform"
	}
	p.Tape = genTape(r, 8*len(p.Ops)+8)
}

func init() {
	register(&Scenario{
		Prop:  "C01",
		Level: "exploration",
		Rule:  "seeded histories of update requests (honest steps, forks of every branch, wrong old sizes, forged/truncated/padded/replayed proofs, byte-level forgeries) on the real witness over in-memory and SQLite stores, in four batches by run number: sequential fault-free, concurrent under the seeded scheduler (2-4 clients), sequential with fail-stop storage faults at the interface, and SQLite with faults inside the database driver; oracle on the commit sequence, on the sequence of checkpoints handed out as accepted, and on what is served after every step; a case is non-trivial if some log had >= 2 accepted checkpoints (so the append-only oracle compared at least one pair); distinct = distinct abstract histories (per op: log, size relation, old selector, proof kind, mutation, verdict, faults hit)",
		Gen: func(r *Rng, tier string, n uint64) *Plan {
			pf := c01Profile(r, tier)
			p := &Plan{Scenario: "W"}
			p.Cfg = genConfig(r, pf)
			p.Cfg.ReadBack = true
			p.Ops = genHistory(r, pf, &p.Cfg)
			switch n % 4 {
			case 1:
				// racing forks: make clients start from the same state
				makeConcurrent(r, p)
				p.Cfg.ReadBack = false
				if r.Bool() {
					// a deliberate race: log 0 is first witnessed at size s by client 0; then two requests computed from that same
					// state - the honest trunk's next checkpoint and a fork's (both with proofs that are valid from size s) - are
					// issued by two different clients ahead of everything else
					s0 := uint64(r.Range(1, 9))
					p.Cfg.Logs[0].Forks[0] = ForkCfg{Parent: 0, At: s0 + uint64(r.IntN(2))}
					race := []Op{
						{C: 0, K: "update", L: 0, Sz: "abs", D: s0, Old: "zero", P: "empty"},
						{C: 0, K: "update", L: 0, B: 0, Sz: "abs", D: s0 + uint64(r.Range(1, 6)), Old: "abs", OldV: s0, P: "honest_old"},
						{C: 1, K: "update", L: 0, B: 1, Sz: "abs", D: s0 + uint64(r.Range(1, 6)), Old: "abs", OldV: s0, P: "honest_old"},
					}
					if r.Bool() {
						race[1].C, race[2].C = 1, 0
					}
					p.Ops = append(race, p.Ops...)
					p.Tape = genTape(r, 8*len(p.Ops)+8)
				}
			case 2:
				addFaults(r, p, 0.06)
			case 3:
				// SQLite with faults inside the database driver (begin/query/exec/commit/rollback), one task parked at a time
				p.Cfg.Store, p.Cfg.Seam, p.Cfg.Clients, p.Cfg.Strategy = "sqlite", "driver", 1, "uniform"
				for occ := 0; occ < 2*len(p.Ops); occ++ {
					for _, call := range []string{"drv.Begin", "drv.Query", "drv.Next", "drv.Exec", "drv.Commit", "drv.Rollback"} {
						if r.Chance(0.05) {
							p.Faults = append(p.Faults, Fault{At: fmt.Sprintf("c0:%s#%d", call, occ), Kind: drvKind(r)})
						}
					}
				}
			}
			return p
		},
		Run: func(t *testing.T, p *Plan) *Outcome {
			res, out := baseOutcome(t, p, false)
			if len(out.Infra) > 0 {
				return out
			}
			out.Viol = append(out.Viol, oracleC01(res)...)
			nontrivial := false
			for _, seq := range setsByLog(res) {
				if len(seq) >= 2 {
					nontrivial = true
				}
			}
			if nontrivial {
				out.Distinct = []string{abstractKey(res)}
				out.Stats.Probes["histories_with_2plus_accepted"]++
			}
			for _, r := range res.Hist {
				if r.Op.K == "update" && r.Class == "accept" && r.StBefore.Has && r.Req.Size > r.StBefore.Size {
					out.Stats.Probes["accepted_growth"]++
				}
				if r.Op.K == "update" && r.Class != "accept" && r.Req.Branch > 0 {
					out.Stats.Probes["fork_request_refused"]++
				}
			}
			out.Sample = histSample(p, res)
			return out
		},
		Components:  engineWComponents,
		Assumptions: []string{"SHA-256 collision resistance (the harness never holds a valid proof between incompatible trees)", "harness reference tree/proof code is RFC 6962-correct (cross-checked against transparency-dev/merkle in selftest)", "process kill/power loss not modelled here (see C06)"},
	})
}

var engineWComponents = map[string]string{
	"internal/witness":              "real",
	"internal/persistence/inmemory": "real",
	"internal/persistence/sql + database/sql + go-sqlite3 (file-backed, one connection)": "real",
	"formats/log, formats/note, x/mod/sumdb/note, merkle/proof":                          "real",
	"clock":            "synctest fake clock",
	"logs, submitters": "harness stubs over the reference tree",
	"metrics backend":  "recording stub",
}

// ---------------------------------------------------------------- C03

func (w *World) witnessSigOver(text string, note []byte) bool {
	pn, err := ParseNote(note)
	if err != nil || pn.Text != text {
		return false
	}
	for _, s := range pn.Sigs {
		for _, wk := range w.WitKeys {
			if wk.Cosig {
				if ok, _ := wk.Key.VerifyCosigV1(text, s); ok {
					return true
				}
			} else if wk.Key.VerifyEd25519(text, s) {
				return true
			}
		}
	}
	return false
}

func oracleC03(res *RunResult) []Violation {
	var out []Violation
	sets := setsByLog(res)
	for _, r := range res.Hist {
		if r.Op.K == "update" && r.Err != nil && r.Pre == nil && len(r.Out) > 0 && r.Req != nil && res.W.witnessSigOver(r.Req.Text, r.Out) {
			// without snapshots (requests racing each other): whatever a refusal returns, it is not a witness signature over the
			// refused text - unless those very bytes are something the store took at some point (a stale resubmission of
			// the current checkpoint is answered with the stored, cosigned copy of the same text)
			stored := false
			for _, st := range sets[r.Req.LogID] {
				stored = stored || string(st.Bytes) == string(r.Out)
			}
			if !stored {
				out = append(out, Violation{Class: "cosignature_leaked_on_refusal", Sig: "cosignature_leaked_on_refusal/racing/" + r.Class, OpIdx: r.Idx,
					Detail: fmt.Sprintf("op %d (%s) refused with %q yet returned %s: a witness signature over the refused text, in bytes the store never took", r.Idx, r.Req.Desc, r.Err, short(r.Out))})
			}
		}
		if r.Op.K != "update" || r.Err == nil || r.Pre == nil || r.Post == nil {
			continue
		}
		refusal := r.Class
		if refusal == "other" {
			refusal = "other(" + firstWords(r.Err.Error(), 3) + ")"
		}
		if r.Pre.Err != "" || r.Post.Err != "" {
			continue
		}
		if !r.Pre.Equal(r.Post) {
			cls := "state_changed_on_refusal"
			if strings.Join(r.Pre.Logs, ",") != strings.Join(r.Post.Logs, ",") {
				cls = "loglist_changed_on_refusal"
			}
			out = append(out, Violation{Class: cls, Sig: cls + "/" + r.Class, OpIdx: r.Idx,
				Detail: fmt.Sprintf("op %d (%s) refused with %q but the store changed: logs %v -> %v; this log before=%s after=%s", r.Idx, r.Req.Desc, r.Err, len(r.Pre.Logs), len(r.Post.Logs), short([]byte(r.Pre.CP[r.Req.LogID])), short([]byte(r.Post.CP[r.Req.LogID])))})
			continue
		}
		if r.Req.Known && (r.ReadBack != nil || r.RBErr != nil) {
			// what the witness itself serves right after the refusal (its own handle, not the side one)
			pre, had := r.Pre.CP[r.Req.LogID]
			switch {
			case r.RBErr == nil && (!had || string(r.ReadBack) != pre):
				out = append(out, Violation{Class: "state_changed_on_refusal", Sig: "state_changed_on_refusal/served/" + r.Class, OpIdx: r.Idx,
					Detail: fmt.Sprintf("op %d (%s) refused with %q, yet right afterwards the witness serves %s where it held %s before; faults hit: %v", r.Idx, r.Req.Desc, r.Err, short(r.ReadBack), short([]byte(pre)), r.Fired)})
				continue
			case r.RBErr != nil && had && isNotFound(r.RBErr):
				out = append(out, Violation{Class: "state_changed_on_refusal", Sig: "state_changed_on_refusal/served_lost/" + r.Class, OpIdx: r.Idx,
					Detail: fmt.Sprintf("op %d (%s) refused with %q, yet right afterwards the witness serves nothing where it held %s before", r.Idx, r.Req.Desc, r.Err, short([]byte(pre)))})
				continue
			}
		}
		if len(r.Out) > 0 {
			pre, had := r.Pre.CP[r.Req.LogID]
			if !had || pre != string(r.Out) {
				cls := "bytes_on_refusal_not_stored"
				if res.W.witnessSigOver(r.Req.Text, r.Out) {
					cls = "cosignature_leaked_on_refusal"
				}
				out = append(out, Violation{Class: cls, Sig: cls + "/" + r.Class, OpIdx: r.Idx,
					Detail: fmt.Sprintf("op %d (%s) refused with %q yet returned %s, stored was %s", r.Idx, r.Req.Desc, r.Err, short(r.Out), short([]byte(pre)))})
			}
		}
	}
	return out
}

var reParen = regexp.MustCompile(`\([^)]*\)`)

func firstWords(s string, n int) string {
	f := strings.Fields(reParen.ReplaceAllString(s, ""))
	if len(f) > n {
		f = f[:n]
	}
	return strings.Join(f, " ")
}

func init() {
	register(&Scenario{
		Prop:  "C03",
		Level: "exploration",
		Rule:  "seeded histories (one operation in flight) reaching varied states, with refused requests of every class incl. fail-stop storage faults at WriteOps/GetLatest/Set/Close and, in a third batch, the caller's context ending while the update is at one of those calls; a fault-free side handle on the underlying store snapshots every log and the log list around every update; non-trivial = the run contains at least one refused update whose before/after snapshots were compared; distinct = distinct (refusal class, state-before class, store) triples reached",
		Gen: func(r *Rng, tier string, n uint64) *Plan {
			pf := Profile{MaxLogs: 3, ShareKeys: true, MinOps: 3, MaxOps: 12, Adversarial: 0.7, Mutations: 0.35, BigSizes: r.Chance(0.2)}
			if tier == "thorough" {
				pf.MaxOps = 25
			}
			p := &Plan{Scenario: "W"}
			p.Cfg = genConfig(r, pf)
			p.Cfg.Snap = true
			p.Cfg.ReadBack = true
			p.Ops = genHistory(r, pf, &p.Cfg)
			if n%9 == 6 {
				// requests racing each other (conflicting first use, forks from one old size): the losers are refused by the store;
				// judged at rest - every log holds the last write the store took, and the log list names each such log once
				p.Cfg.Snap, p.Cfg.ReadBack = false, false
				for l := range p.Cfg.Logs {
					if r.Chance(0.6) {
						p.Ops = append([]Op{{K: "update", L: l, B: 0, D: uint64(r.Range(1, 5))}, {K: "update", L: l, B: r.IntN(len(p.Cfg.Logs[l].Forks) + 1), D: uint64(r.Range(1, 5))}}, p.Ops...)
					}
				}
				makeConcurrent(r, p)
				return p
			}
			if n%9 == 8 {
				// the same kind of history arriving through the add-checkpoint endpoint (handler, adapter, witness)
				q := scenarios["C10"].Gen(r, tier, n)
				q.Scenario = "endpoint-refusals"
				return q
			}
			switch n % 4 {
			case 3:
				// SQLite with faults inside the database driver
				p.Cfg.Store, p.Cfg.Seam, p.Cfg.Clients, p.Cfg.Strategy = "sqlite", "driver", 1, "uniform"
				for occ := 0; occ < 3*len(p.Ops); occ++ {
					for _, call := range []string{"drv.Begin", "drv.Query", "drv.Next", "drv.Exec", "drv.Commit", "drv.Rollback"} {
						if r.Chance(0.05) {
							p.Faults = append(p.Faults, Fault{At: fmt.Sprintf("c0:%s#%d", call, occ), Kind: drvKind(r)})
						}
					}
				}
			case 1:
				addFaults(r, p, 0.08)
			case 2:
				// the caller's context ends while the update is at a storage call (client gone, deadline, shutdown)
				for occ := 0; occ < len(p.Ops); occ++ {
					for _, call := range []string{"WriteOps", "W.GetLatest", "W.Set", "W.Close"} {
						if r.Chance(0.1) {
							p.Faults = append(p.Faults, Fault{At: fmt.Sprintf("c0:%s#%d", call, occ), Kind: "cancelctx"})
						}
					}
				}
			}
			return p
		},
		Run: func(t *testing.T, p *Plan) *Outcome {
			if p.Scenario == "endpoint-refusals" {
				return c03ViaBastion(t, p)
			}
			res, out := baseOutcome(t, p, false)
			if len(out.Infra) > 0 {
				return out
			}
			out.Viol = append(out.Viol, oracleC03(res)...)
			if p.Cfg.Clients > 1 {
				for _, v := range servedIsStored(res) {
					v.Class, v.Sig = "state_changed_on_refusal", "state_changed_on_refusal/"+v.Sig
					out.Viol = append(out.Viol, v)
				}
				out.Viol = append(out.Viol, lastWriteWins(res)...)
			}
			for _, r := range res.Hist {
				if r.Op.K == "update" && r.Err != nil && r.Pre != nil {
					cls := r.Class
					if cls == "other" {
						cls = "other:" + firstWords(r.Err.Error(), 2)
					}
					st := "none"
					if r.StBefore.Has {
						st = "stored"
						if r.StBefore.Size == 0 {
							st = "stored0"
						}
					}
					out.Distinct = append(out.Distinct, p.Cfg.Store+"/"+cls+"/"+st+"/"+fmt.Sprint(len(r.Out) > 0))
					out.Stats.Probes["refusal:"+cls]++
				}
			}
			out.Sample = histSample(p, res)
			return out
		},
		Components:  engineWComponents,
		Assumptions: []string{"snapshots are taken through a second, fault-free handle on the same store (the store's own read path)", "injected storage faults are fail-stop: a failed Set is not applied"},
	})
}

// ---------------------------------------------------------------- C09

var cubeProofs = []string{"empty", "honest", "othersizes", "flip", "drop", "add", "random"}

const cubeN = 18

// cubeCase decodes case number n of the exhaustive cube.
func cubeCase(n uint64) (stored int, sub, old uint64, diffRoot bool, proof string) {
	proof = cubeProofs[n%7]
	n /= 7
	diffRoot = n%2 == 1
	n /= 2
	old = n % cubeN
	n /= cubeN
	sub = n % cubeN
	n /= cubeN
	stored = int(n) - 1 // -1 = nothing stored
	return
}

const cubeTotal = 19 * cubeN * cubeN * 2 * 7

func cubePlan(n uint64, pv uint64) *Plan {
	stored, sub, old, diff, proof := cubeCase(n)
	p := &Plan{Scenario: "W"}
	p.Cfg = Config{Store: "mem", Seam: "none", Clients: 1, Dense: 64, WitKeys: []string{"ed:0", "cosig:0"},
		Logs:  []LogCfg{{Origin: "sim.example/cube", Key: 0, Forks: []ForkCfg{{Parent: 0, At: 0}}}},
		Extra: map[string]int64{"cube": int64(n)}}
	if stored >= 0 {
		p.Ops = append(p.Ops, Op{K: "update", L: 0, Sz: "abs", D: uint64(stored), Old: "zero", P: "empty"})
	}
	probe := Op{K: "update", L: 0, Sz: "abs", D: sub, Old: "abs", OldV: old, P: proof, PV: pv}
	if diff {
		probe.B = 1
		if sub == 0 {
			probe.M, probe.MV = "garbage_root", 5*(1+pv%1000) // 32 random bytes
		}
	}
	p.Ops = append(p.Ops, probe)
	return p
}

func oracleC09(res *RunResult) []Violation {
	var out []Violation
	for _, r := range res.Hist {
		if r.Op.K == "update" && len(r.Fired) > 0 && r.Class == "accept" && r.Want != "accept" && r.Want != "any" {
			out = append(out, Violation{Class: "verdict_mismatch", Sig: "verdict_mismatch/accepted_under_fault/want=" + r.Want, OpIdx: r.Idx,
				Detail: fmt.Sprintf("an update hit by storage faults %v may fail, but it was ACCEPTED although the rule that applies to the committed state {%s} is %s: %s", r.Fired, cpBrief(r.StBefore), r.Want, r.Req.Desc)})
			continue
		}
		if r.Op.K != "update" || r.Want == "any" || len(r.Fired) > 0 {
			continue
		}
		cell := fmt.Sprintf("stored=%s sub=%d old=%d proof=%s/%d m=%s", cpBrief(r.StBefore), r.Req.Size, r.Req.Old, r.Op.P, len(r.Req.Proof), r.Op.M)
		sigCell := fmt.Sprintf("want=%s got=%s", r.Want, r.Class)
		if r.Want == "refuse" {
			if r.Class == "accept" {
				out = append(out, Violation{Class: "verdict_mismatch", Sig: "verdict_mismatch/" + sigCell, OpIdx: r.Idx, Detail: "must be refused, was accepted: " + cell})
			}
			continue
		}
		if r.Class != r.Want {
			cls := "verdict_mismatch"
			if (r.Want == "accept" && r.Class == "bad_proof") || (r.Want == "bad_proof" && r.Class == "accept") {
				cls = "proof_verdict_disagrees_rfc6962"
			}
			e := ""
			if r.Err != nil {
				e = r.Err.Error()
			}
			out = append(out, Violation{Class: cls, Sig: cls + "/" + sigCell, OpIdx: r.Idx,
				Detail: fmt.Sprintf("model says %s, witness answered %s (%s): %s", r.Want, r.Class, e, cell)})
			continue
		}
		switch r.Want {
		case "old_too_large", "stale", "root_mismatch", "bad_proof":
			if string(r.Out) != string(r.StBefore.Raw) {
				out = append(out, Violation{Class: "refusal_bytes_not_stored", Sig: "refusal_bytes_not_stored/" + r.Want, OpIdx: r.Idx,
					Detail: fmt.Sprintf("%s must return the stored cosigned checkpoint; got %s want %s: %s", r.Want, short(r.Out), short(r.StBefore.Raw), cell)})
			}
		case "accept":
			if len(r.Out) == 0 {
				out = append(out, Violation{Class: "verdict_mismatch", Sig: "accept_without_bytes", OpIdx: r.Idx, Detail: "accepted but returned no checkpoint: " + cell})
			}
		}
	}
	return out
}

func c09Total(tier string) uint64 {
	if tier == "thorough" {
		return cubeTotal + 400000
	}
	return 1 << 62
}

func init() {
	register(&Scenario{
		Prop:  "C09",
		Level: "exploration",
		Rule:  "refinement against the sequential decision-table model, operation by operation (sequential; three quarters of the runs fault-free, one quarter with fail-stop storage faults where the faulted operations themselves are not judged but every later one is, against the last committed state). thorough: every case of the cube {nothing stored, stored size 0..17} x submitted 0..17 x old 0..17 x {same root, different root} x {empty, correct, correct-for-other-sizes, flipped, dropped, added, random proof} on a fresh witness, then seeded histories with sizes to 2^63 and old sizes to 2^64-1; quick: a seeded sample of the cube interleaved with seeded histories; a tenth of the histories arrive through the real add-checkpoint endpoint (handler, adapter, witness) and are judged by the status the verdict is mapped to, as the callers that switch on the verdict see it; non-trivial = the model constrains the verdict (not one of the three open cells); distinct = distinct (state class, verdict, proof kind, old relation) cells reached",
		Total: c09Total,
		Gen: func(r *Rng, tier string, n uint64) *Plan {
			if tier == "thorough" && n < cubeTotal {
				return cubePlan(n, r.Uint64())
			}
			if tier != "thorough" && n%2 == 0 {
				return cubePlan(r.U64n(cubeTotal), r.Uint64())
			}
			if n%10 == 5 {
				// the verdict as the caller that branches on it sees it: the same kind of history through the add-checkpoint
				// endpoint (handler, adapter, witness; no rate limit, no faults), judged by the status the verdict is mapped to
				q := scenarios["C10"].Gen(r, tier, 0)
				q.Scenario, q.Faults, q.Cfg.Seam = "endpoint-verdicts", nil, "none"
				q.Cfg.Extra["rate"] = 1000000000
				return q
			}
			pf := Profile{MaxLogs: 2, ShareKeys: true, MinOps: 2, MaxOps: 10, Adversarial: 0.75, Mutations: 0.15, BigSizes: true}
			p := &Plan{Scenario: "W"}
			p.Cfg = genConfig(r, pf)
			if n%1000 == 99 {
				// one long history now and then (thousands of requests against one witness): whatever the code keeps across
				// requests - caches that fill up and evict, counters, remembered verdicts - the table holds for the 5000th request too
				pf.MinOps, pf.MaxOps, pf.Adversarial, pf.BigSizes = 3000, 7000, 0.5, false
				p.Cfg.Store = "mem"
				p.Ops = genHistory(r, pf, &p.Cfg)
				if r.Bool() {
					p.Cfg.Extra = map[string]int64{"via_adapter": 1}
				}
				return p
			}
			p.Ops = genHistory(r, pf, &p.Cfg)
			if n%6 == 1 {
				p.Cfg.Extra = map[string]int64{"via_adapter": 1} // the same table must hold behind the adapter Main wires in
			}
			if n%4 == 3 {
				// the rule order must also hold for the requests that FOLLOW a storage failure: operations hit by an
				// injected fault are not judged, everything after them is, against the last committed state
				pf.Adversarial, pf.Mutations = 0.35, 0.05
				p.Ops = genHistory(r, pf, &p.Cfg)
				if n%8 == 7 {
					p.Cfg.Store, p.Cfg.Seam, p.Cfg.Clients, p.Cfg.Strategy = "sqlite", "driver", 1, "uniform"
					for occ := 0; occ < 3*len(p.Ops); occ++ {
						for _, call := range []string{"drv.Begin", "drv.Query", "drv.Next", "drv.Exec", "drv.Commit", "drv.Rollback"} {
							if r.Chance(0.06) {
								p.Faults = append(p.Faults, Fault{At: fmt.Sprintf("c0:%s#%d", call, occ), Kind: drvKind(r)})
							}
						}
					}
				} else {
					addFaults(r, p, 0.12)
				}
			}
			return p
		},
		Run: func(t *testing.T, p *Plan) *Outcome {
			if p.Scenario == "endpoint-verdicts" {
				return c09ViaBastion(t, p)
			}
			res, out := baseOutcome(t, p, false)
			if len(out.Infra) > 0 {
				return out
			}
			out.Viol = append(out.Viol, oracleC09(res)...)
			for _, r := range res.Hist {
				if r.Op.K != "update" {
					continue
				}
				if r.Want == "any" {
					out.Stats.Probes["open_cell"]++
					continue
				}
				st := "none"
				if r.StBefore.Has {
					st = "s"
					if r.StBefore.Size == 0 {
						st = "s0"
					}
				}
				rel := "="
				if r.Req.Old < r.StBefore.Size {
					rel = "<"
				} else if r.Req.Old > r.StBefore.Size {
					rel = ">"
				}
				key := fmt.Sprintf("%s/%s/%s/%s/%v", st, r.Want, r.Op.P, rel, r.Req.Size > r.StBefore.Size)
				if _, ok := p.Cfg.Extra["cube"]; ok && r.Idx == len(p.Ops)-1 {
					key = fmt.Sprintf("cube%d", p.Cfg.Extra["cube"])
					out.Stats.Probes["cube_cases"]++
				}
				out.Distinct = append(out.Distinct, key)
				out.Stats.Probes["verdict:"+r.Want]++
			}
			out.Sample = histSample(p, res)
			return out
		},
		Components:  engineWComponents,
		Assumptions: []string{"the model is the rule list of property C09 / c2sp.org/tlog-witness; its proof verdict is the RFC 9162 2.1.4.2 algorithm written in the harness", "three cells are left open as the property states: first use with non-zero old size or non-empty proof; stored size 0 < submitted size (C08); size 0 with non-empty proof (refusal required, identity open)"},
	})
}

// ---------------------------------------------------------------- C20

var counterNames = map[string]string{
	"attempt":      "witness_update_request",
	"success":      "witness_update_success",
	"bad_proof":    "witness_update_invalid_consistency",
	"inconsistent": "witness_update_inconsistent_checkpoints",
}

func oracleC20(res *RunResult) []Violation {
	want := map[string]float64{}
	mix := map[string]int{}
	for _, r := range res.Hist {
		if r.Op.K != "update" || !r.Done {
			continue
		}
		mix[r.Class]++
		if !r.Req.Known {
			continue
		}
		id := r.Req.LogID
		want[counterNames["attempt"]+"|"+id]++
		switch r.Class {
		case "accept":
			want[counterNames["success"]+"|"+id]++
		case "bad_proof":
			want[counterNames["bad_proof"]+"|"+id]++
		case "root_mismatch":
			want[counterNames["inconsistent"]+"|"+id]++
		}
	}
	var out []Violation
	keys := map[string]bool{}
	for k := range want {
		keys[k] = true
	}
	for k := range res.CtrDelta {
		if strings.HasPrefix(k, "witness_update_") {
			keys[k] = true
		}
	}
	var ks []string
	for k := range keys {
		ks = append(ks, k)
	}
	sort.Strings(ks)
	for _, k := range ks {
		if want[k] != res.CtrDelta[k] {
			name, id, _ := strings.Cut(k, "|")
			li := -1
			if ld := res.W.LogByID(id); ld != nil {
				li = ld.Idx
			}
			out = append(out, Violation{Class: "counter_mismatch", Sig: "counter_mismatch/" + name,
				Detail: fmt.Sprintf("counter %s for log %d: got %v want %v; outcome mix %v", name, li, res.CtrDelta[k], want[k], mix)})
		}
	}
	return out
}

func init() {
	register(&Scenario{
		Prop:  "C20",
		Level: "exploration",
		Rule:  "the recording metric factory observes the same seeded histories as C01/C09 in three batches (sequential - some requests arriving with a context that has already ended -, concurrent under the seeded scheduler, sequential with fail-stop storage faults); per run and log the four counters' deltas must equal the counts of actual outcomes; non-trivial = the run moved at least two different counters; distinct = distinct outcome mixes (multiset of verdict classes incl. storage failures and CAS conflicts) x store x batch",
		Gen: func(r *Rng, tier string, n uint64) *Plan {
			pf := Profile{MaxLogs: 3, ShareKeys: true, MinOps: 3, MaxOps: 14, Adversarial: 0.6, Mutations: 0.25, BigSizes: r.Chance(0.2)}
			p := &Plan{Scenario: "W"}
			p.Cfg = genConfig(r, pf)
			p.Ops = genHistory(r, pf, &p.Cfg)
			if n%40 == 7 {
				// a witness configured with many logs (more than any label-cardinality guard would expect): one accepted
				// update, one split view and one bad proof per log
				p.Cfg.Logs = nil
				p.Ops = nil
				for i := 0; i < 70; i++ {
					p.Cfg.Logs = append(p.Cfg.Logs, LogCfg{Origin: fmt.Sprintf("sim.example/many%d", i), Key: i % 3, Forks: []ForkCfg{{Parent: 0, At: 0}}})
					p.Ops = append(p.Ops, Op{K: "update", L: i, Sz: "rel1", D: 2}, Op{K: "update", L: i, B: 1, D: 0}, Op{K: "update", L: i, D: 3, P: "random", PV: 3})
				}
				return p
			}
			if n%5 == 4 {
				// the same histories arrive through the bastion add-checkpoint endpoint: one request is one attempt
				q := scenarios["C10"].Gen(r, tier, n)
				q.Scenario = "bastion-counters"
				return q
			}
			if n%7 == 3 {
				// identical requests in flight at the same time, through the adapter Main puts in front of the witness (feeders of one
				// log, a retrying client): each is one request, whatever is done to serve them
				var ops []Op
				for _, o := range p.Ops {
					ops = append(ops, o)
					if o.K == "update" && r.Chance(0.5) {
						ops = append(ops, o)
					}
				}
				p.Ops = ops
				makeConcurrent(r, p)
				for i := 1; i < len(p.Ops); i++ {
					if p.Ops[i] == p.Ops[i-1] || (p.Ops[i].K == "update" && p.Ops[i-1].K == "update" && p.Ops[i].C == p.Ops[i-1].C && sameOpButClient(p.Ops[i], p.Ops[i-1])) {
						p.Ops[i].C = (p.Ops[i-1].C + 1) % p.Cfg.Clients
					}
				}
				p.Cfg.Extra = map[string]int64{"via_adapter": 1}
				if r.Bool() {
					addFaults(r, p, 0.06) // a request that fails on a storage error is still one request
				}
				return p
			}
			switch n % 3 {
			case 1:
				makeConcurrent(r, p)
				for i := range p.Ops {
					if p.Ops[i].K == "update" && r.Chance(0.1) {
						p.Ops[i].Ms = -1 // ... also while other requests for the same log are in flight
					}
				}
			case 2:
				addFaults(r, p, 0.08)
			default:
				// some requests arrive with a context that has already ended (a client that went away, an expired feed round): each
				// still is a request that named a log
				for i := range p.Ops {
					if p.Ops[i].K == "update" && r.Chance(0.15) {
						p.Ops[i].Ms = -1
					}
				}
			}
			return p
		},
		Run: func(t *testing.T, p *Plan) *Outcome {
			if p.Scenario == "bastion-counters" {
				return c20ViaBastion(t, p)
			}
			res, out := baseOutcome(t, p, false)
			if len(out.Infra) > 0 {
				return out
			}
			out.Viol = append(out.Viol, oracleC20(res)...)
			mix := map[string]int{}
			for _, r := range res.Hist {
				if r.Op.K == "update" {
					c := r.Class
					if c == "other" {
						c = "other:" + firstWords(r.Err.Error(), 2)
						out.Stats.Probes["storage_or_other_failure"]++
					}
					mix[c]++
				}
			}
			moved := map[string]bool{}
			for k := range res.CtrDelta {
				name, _, _ := strings.Cut(k, "|")
				moved[name] = true
			}
			if len(moved) >= 2 {
				var ks []string
				for k, v := range mix {
					ks = append(ks, fmt.Sprintf("%s=%d", k, v))
				}
				sort.Strings(ks)
				out.Distinct = []string{p.Cfg.Store + "/" + p.Cfg.Seam + "/" + strings.Join(ks, ",")}
			}
			out.Sample = histSample(p, res)
			return out
		},
		Components:  engineWComponents,
		Assumptions: []string{"outcomes are classified from the sentinel errors Update returns; counters are compared against those actual outcomes, per run (deltas of a process-wide recording factory)"},
	})
}
