package verifsim

// A database/sql driver ("sqlite3-sim") that wraps mattn/go-sqlite3 and passes
// every Begin/Query/Exec/Commit/Rollback through the engine's seam, so the
// scheduler can park a task there, fail the call, or (in the crash child) kill
// the process before or after it. Fault semantics are restricted to what the
// real driver can do: Begin/Query/Exec fail without effect; a failed Commit has
// rolled back; a failing Rollback reports the error after rolling back.

import (
	"context"
	"database/sql"
	"database/sql/driver"
	"sync/atomic"

	sqlite3 "github.com/mattn/go-sqlite3"
)

var curEngine atomic.Pointer[Engine]

// mainDrvFault, when set (Main-level world, no Engine), decides driver faults from the operation and the first
// query argument (the log ID), never from arrival order.
var mainDrvFault func(op, arg string) error

// drvHook, when set (crash child), is called before and after every driver operation.
var drvHook func(op string, after bool)

type simDriver struct{ inner *sqlite3.SQLiteDriver }

func init() { sql.Register("sqlite3-sim", &simDriver{inner: &sqlite3.SQLiteDriver{}}) }

func (d *simDriver) Open(name string) (driver.Conn, error) {
	c, err := d.inner.Open(name)
	if err != nil {
		return nil, err
	}
	return &simConn{c: c.(*sqlite3.SQLiteConn)}, nil
}

type simConn struct {
	c    *sqlite3.SQLiteConn
	inTx bool
}

// mainFault consults mainDrvFault for the operations other than row fetches (Begin, Query, Exec, Commit, Rollback).
func mainFault(op, arg string) error {
	if f := mainDrvFault; f != nil {
		return f(op, arg)
	}
	return nil
}

func firstArg(args []driver.NamedValue) string {
	if len(args) > 0 {
		switch v := args[0].Value.(type) {
		case string:
			return v
		case []byte:
			return string(v)
		}
	}
	return ""
}

func drvSeam(op string) string {
	if drvHook != nil {
		drvHook(op, false)
	}
	e := curEngine.Load()
	if e == nil || !e.seamsOn.Load() || e.plan.Cfg.Seam != "driver" {
		return ""
	}
	e.setHolder(true)
	return e.seam("drv."+op, "")
}

func drvAfter(op string) {
	if drvHook != nil {
		drvHook(op, true)
	}
}

// Prepare: the unchanged repository never prepares a statement (database/sql hands its queries to the driver directly), so
// this seam has no occurrences on it; code that does prepare - once, lazily, per connection - meets faults here too,
// and its statements' executions pass the same seams as direct ones.
func (c *simConn) Prepare(q string) (driver.Stmt, error) {
	if err := mainFault("Prepare", ""); err != nil {
		return nil, err
	}
	if k := drvSeam("Prepare"); k != "" {
		return nil, injected(k)
	}
	st, err := c.c.Prepare(q)
	drvAfter("Prepare")
	if err != nil {
		return nil, err
	}
	return &simStmt{st: st, c: c}, nil
}

type simStmt struct {
	st driver.Stmt
	c  *simConn
}

func (s *simStmt) Close() error  { return s.st.Close() }
func (s *simStmt) NumInput() int { return s.st.NumInput() }
func (s *simStmt) Exec(args []driver.Value) (driver.Result, error) {
	if k := drvSeam("Exec"); k != "" {
		return nil, injected(k)
	}
	r, err := s.st.Exec(args) //nolint:staticcheck // the legacy interface is what database/sql falls back to
	drvAfter("Exec")
	return r, err
}
func (s *simStmt) Query(args []driver.Value) (driver.Rows, error) {
	if k := drvSeam("Query"); k != "" {
		return nil, injected(k)
	}
	r, err := s.st.Query(args) //nolint:staticcheck
	drvAfter("Query")
	if err != nil {
		return nil, err
	}
	arg := ""
	if len(args) > 0 {
		if v, ok := args[0].(string); ok {
			arg = v
		}
	}
	return &simRows{r: r, arg: arg, inTx: s.c.inTx}, nil
}
func (c *simConn) Close() error { return c.c.Close() }
func (c *simConn) Begin() (driver.Tx, error) {
	return c.BeginTx(context.Background(), driver.TxOptions{})
}

func (c *simConn) BeginTx(ctx context.Context, o driver.TxOptions) (driver.Tx, error) {
	if err := mainFault("Begin", ""); err != nil {
		return nil, err
	}
	switch k := drvSeam("Begin"); k {
	case "":
	case "badconn":
		return nil, driver.ErrBadConn
	default:
		return nil, injected(k)
	}
	tx, err := c.c.BeginTx(ctx, o)
	drvAfter("Begin")
	if err != nil {
		return nil, err
	}
	c.inTx = true
	return &simTx{tx: tx, c: c}, nil
}

func (c *simConn) QueryContext(ctx context.Context, q string, args []driver.NamedValue) (driver.Rows, error) {
	if err := mainFault("Query", firstArg(args)); err != nil {
		return nil, err
	}
	if k := drvSeam("Query"); k != "" {
		return nil, injected(k)
	}
	r, err := c.c.QueryContext(ctx, q, args)
	drvAfter("Query")
	if err != nil {
		return nil, err
	}
	arg := ""
	if len(args) > 0 {
		switch v := args[0].Value.(type) {
		case string:
			arg = v
		case []byte:
			arg = string(v)
		}
	}
	return &simRows{r: r, arg: arg, inTx: c.inTx}, nil
}

// simRows passes every row fetch through the seam: a read can fail while stepping the statement
// (SQLITE_BUSY, an I/O error) even though issuing the query succeeded.
type simRows struct {
	r    driver.Rows
	arg  string
	inTx bool // the query runs inside a transaction (the witness's read-verify-write), not a plain read
}

func (s *simRows) Columns() []string { return s.r.Columns() }
func (s *simRows) Close() error      { return s.r.Close() }
func (s *simRows) Next(dest []driver.Value) error {
	if f := mainDrvFault; f != nil && s.inTx {
		if err := f("Next", s.arg); err != nil {
			return err
		}
	}
	if k := drvSeam("Next"); k != "" {
		return injected(k)
	}
	err := s.r.Next(dest)
	drvAfter("Next")
	return err
}

func (c *simConn) ExecContext(ctx context.Context, q string, args []driver.NamedValue) (driver.Result, error) {
	if err := mainFault("Exec", firstArg(args)); err != nil {
		return nil, err
	}
	if k := drvSeam("Exec"); k != "" {
		return nil, injected(k)
	}
	r, err := c.c.ExecContext(ctx, q, args)
	drvAfter("Exec")
	return r, err
}

func (c *simConn) Ping(ctx context.Context) error { return c.c.Ping(ctx) }

type simTx struct {
	tx driver.Tx
	c  *simConn
}

func (t *simTx) Commit() error {
	if t.c != nil {
		defer func() { t.c.inTx = false }()
	}
	if err := mainFault("Commit", ""); err != nil {
		_ = t.tx.Rollback()
		return err
	}
	if k := drvSeam("Commit"); k != "" {
		_ = t.tx.Rollback() // go-sqlite3 rolls back itself after a failed COMMIT
		return injected(k)
	}
	err := t.tx.Commit()
	drvAfter("Commit")
	return err
}

func (t *simTx) Rollback() error {
	if t.c != nil {
		defer func() { t.c.inTx = false }()
	}
	k := drvSeam("Rollback")
	err := t.tx.Rollback()
	drvAfter("Rollback")
	if k != "" && k != "abort" {
		return injected(k)
	}
	if ferr := mainFault("Rollback", ""); ferr != nil {
		return ferr
	}
	return err
}
