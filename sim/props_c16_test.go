package verifsim

import (
	"errors"
	"fmt"
	"os"
	"sort"
	"strings"
	"testing"

	flog "github.com/transparency-dev/formats/log"
)

// ---------------------------------------------------------------- C16

var c16IDKinds = []string{"known", "known", "known", "unknown", "empty", "dots", "dot", "slash", "encslash", "upper", "suffix", "prefix", "long", "space", "dashes", "star", "ctrl"}
var c16NetFaults = []string{"drop", "droprsp", "status:500", "status:503", "status:400", "trunc:5", "stall"}

func oracleC16(res *RunResult) []Violation {
	var out []Violation
	add := func(cls, sig string, idx int, d string) {
		out = append(out, Violation{Class: cls, Sig: cls + "/" + sig, OpIdx: idx, Detail: d})
	}
	for _, ld := range res.W.Logs {
		if flog.ID(ld.Origin) != ld.ID {
			add("id_disagreement", "harness_vs_repo", -1, fmt.Sprintf("formats/log.ID(%q) = %s, hex(sha256(\"o:\"+origin)) = %s", ld.Origin, flog.ID(ld.Origin), ld.ID))
		}
	}
	allStored := func(b []byte) (string, bool) {
		for id, st := range res.Final {
			_ = id
			if st.Has && string(st.Raw) == string(b) {
				return id, true
			}
		}
		for _, s := range res.Sets {
			if string(s.Bytes) == string(b) {
				return s.LogID, true
			}
		}
		return "", false
	}
	lastOut := map[string][]byte{} // the latest cosigned checkpoint handed out per log (one operation in flight at a time)
	for _, r := range res.Hist {
		if r.Op.K == "update" && r.Class == "accept" && r.Req != nil {
			lastOut[r.Req.LogID] = r.Out
		}
		if r.Op.K == "get" && res.Plan.Cfg.Clients <= 1 && r.Req.Known && r.NetFault == "" {
			got, ok := r.HBody, r.HErr == nil && r.HStatus == 200
			if r.Op.B != 0 {
				got, ok = r.CBytes, r.CErr == nil
			}
			if want, has := lastOut[r.Req.LogID]; has && ok && string(got) != string(want) {
				add("wrong_bytes", "not_latest_cosigned", r.Idx, fmt.Sprintf("the read returned %s but the latest cosigned checkpoint the witness handed out for log %d is %s", short(got), r.Req.LogIdx, short(want)))
				continue
			}
		}
		switch r.Op.K {
		case "get":
			// the values this log held between invoke and return
			allowed := map[string]bool{}
			none := false
			if r.Req.Known {
				if r.StBefore.Has {
					allowed[string(r.StBefore.Raw)] = true
				} else {
					none = true
				}
				for _, s := range res.Sets {
					if s.LogID == r.Req.LogID && s.Event >= r.Invoke && (r.Return < 0 || s.Event <= r.Return) {
						allowed[string(s.Bytes)] = true
					}
				}
			} else {
				none = true
			}
			if len(r.Fired) > 0 {
				// the store failed while this read was served: an error (500, a client error that is not "does not exist") is
				// the honest answer; anything else must still be right, so fall through unless it is that
				if r.Op.B == 0 && r.HErr == nil && r.HStatus == 500 {
					continue
				}
				if r.Op.B != 0 && r.CErr != nil && !errors.Is(r.CErr, os.ErrNotExist) {
					continue
				}
			}
			if r.Op.B == 0 {
				if r.NetFault != "" {
					continue // raw GETs under a network fault prove nothing about the handler
				}
				if r.HErr != nil {
					add("wrong_status", "transport_error", r.Idx, fmt.Sprintf("GET for %s ID %q failed without any injected fault: %v", r.GetIDKind, short([]byte(r.GetID)), r.HErr))
					continue
				}
				switch {
				case r.HStatus == 200:
					if !allowed[string(r.HBody)] {
						if owner, ok := allStored(r.HBody); ok && owner != r.Req.LogID {
							add("other_logs_checkpoint_served", r.GetIDKind, r.Idx, fmt.Sprintf("GET for %s ID %q returned the checkpoint of log %s", r.GetIDKind, short([]byte(r.GetID)), owner[:8]))
						} else if !r.Req.Known {
							add("wrong_status", "200_for_"+r.GetIDKind, r.Idx, fmt.Sprintf("GET for %s ID %q answered 200 with %s", r.GetIDKind, short([]byte(r.GetID)), short(r.HBody)))
						} else {
							add("wrong_bytes", "get", r.Idx, fmt.Sprintf("GET for log %d returned %s, the stored checkpoint is %s", r.Req.LogIdx, short(r.HBody), short(r.StBefore.Raw)))
						}
					}
				case r.HStatus == 404:
					if !none {
						add("wrong_status", "404_while_stored", r.Idx, fmt.Sprintf("GET for log %d answered 404 although a checkpoint is stored", r.Req.LogIdx))
					}
				default:
					add("wrong_status", fmt.Sprintf("%d_for_%s", r.HStatus, r.GetIDKind), r.Idx, fmt.Sprintf("GET for %s ID %q answered %d (want 200 with the stored bytes or 404)", r.GetIDKind, short([]byte(r.GetID)), r.HStatus))
				}
				continue
			}
			// the bundled client
			if r.NetFault != "" {
				if strings.HasPrefix(r.NetFault, "trunc") && none {
					continue // a truncated 404 is still a 404
				}
				if r.CErr == nil {
					add("client_mapping_wrong", "fault_swallowed/"+strings.SplitN(r.NetFault, ":", 2)[0], r.Idx, fmt.Sprintf("under network fault %q the client returned %s and no error", r.NetFault, short(r.CBytes)))
				} else if errors.Is(r.CErr, os.ErrNotExist) {
					add("client_mapping_wrong", "fault_as_not_exist/"+strings.SplitN(r.NetFault, ":", 2)[0], r.Idx, fmt.Sprintf("under network fault %q the client reported 'does not exist': %v", r.NetFault, r.CErr))
				}
				continue
			}
			switch {
			case r.CErr == nil:
				if !allowed[string(r.CBytes)] {
					if owner, ok := allStored(r.CBytes); ok && owner != r.Req.LogID {
						add("other_logs_checkpoint_served", "client/"+r.GetIDKind, r.Idx, fmt.Sprintf("client lookup of %s ID %q returned the checkpoint of log %s", r.GetIDKind, short([]byte(r.GetID)), owner[:8]))
					} else if r.Req.Known {
						add("client_mapping_wrong", "bytes", r.Idx, fmt.Sprintf("client returned %s, the stored checkpoint is %s", short(r.CBytes), short(r.StBefore.Raw)))
					} else {
						add("client_mapping_wrong", "bytes_for_"+r.GetIDKind, r.Idx, fmt.Sprintf("client lookup of %s ID %q returned %s without error", r.GetIDKind, short([]byte(r.GetID)), short(r.CBytes)))
					}
				}
			case errors.Is(r.CErr, os.ErrNotExist):
				if !none {
					add("client_mapping_wrong", "not_exist_while_stored", r.Idx, fmt.Sprintf("client reported 'does not exist' for log %d although a checkpoint is stored", r.Req.LogIdx))
				}
			default:
				if r.Req.Known {
					add("client_mapping_wrong", "error_for_known", r.Idx, fmt.Sprintf("client lookup of log %d failed: %v", r.Req.LogIdx, r.CErr))
				}
			}
		case "getlist":
			if len(r.Fired) > 0 && r.HErr == nil && r.HStatus == 500 {
				continue // the store failed while the list was read: 500 is the honest answer (a partial list with 200 is not)
			}
			if r.HErr != nil || r.HStatus != 200 {
				add("loglist_mismatch", "failed", r.Idx, fmt.Sprintf("GET of the log list: status %d err %v", r.HStatus, r.HErr))
				continue
			}
			// the set of logs with an accepted update, at some instant between invoke and return
			want := map[string]bool{}
			maybe := map[string]bool{}
			for _, s := range res.Sets {
				if s.Event < r.Invoke {
					want[s.LogID] = true
				} else if r.Return < 0 || s.Event <= r.Return {
					maybe[s.LogID] = true
				}
			}
			got := map[string]bool{}
			for _, id := range r.List {
				if got[id] {
					add("loglist_mismatch", "duplicate", r.Idx, "log list names "+id[:8]+" twice")
				}
				got[id] = true
			}
			for id := range want {
				if !got[id] {
					add("loglist_mismatch", "missing", r.Idx, fmt.Sprintf("log list %v lacks %s, which has an accepted update", r.List, id[:8]))
				}
			}
			for id := range got {
				if !want[id] && !maybe[id] {
					add("loglist_mismatch", "extra", r.Idx, fmt.Sprintf("log list names %q, for which no update was ever accepted", id))
				}
			}
		}
	}
	return out
}

func init() {
	register(&Scenario{
		Prop:  "C16",
		Level: "exploration",
		Rule:  "Engine-W histories of accepted and refused updates over 1..4 logs (IDs from the repository's own origin-to-ID function, cross-checked against the harness's) on both stores; after every step GETs through the registered mux router (following its path-cleaning redirects) and through the bundled client/http.Witness over simnet, for known, unknown and syntactically odd IDs (empty, dots, slash, encoded slash, upper-case hex, ID plus suffix, ID minus a character, 4000 characters, an ID wrapped in percent-encoded control characters, ...), with injected transport faults on client lookups (drop, 5xx, truncation, stall), the log list after every step; in a second batch the reads race the updates under the seeded scheduler (a GET while an update is parked mid-transaction); with a single client a request that is never answered (the scheduler finds no task able to proceed and hours of simulated time change nothing) is a violation; non-trivial = a read hit a log with a stored checkpoint after at least one growth, or an odd ID; distinct = distinct (ID kind, path, state class, status or client result class, fault) tuples",
		Gen: func(r *Rng, tier string, n uint64) *Plan {
			if n%9 == 8 {
				// updates arriving through the add-checkpoint endpoint, the read API after each of them: without an accepted
				// update in between, what is served for every log stays what it was
				q := scenarios["C10"].Gen(r, tier, n)
				q.Scenario = "endpoint-reads"
				return q
			}
			pf := Profile{MaxLogs: 4, ShareKeys: true, MinOps: 2, MaxOps: 8, Adversarial: 0.4, Mutations: 0.3, BigSizes: false}
			p := &Plan{Scenario: "W"}
			p.Cfg = genConfig(r, pf)
			hist := genHistory(r, pf, &p.Cfg)
			for i := range hist {
				// some checkpoints are large (extension lines are free-form): beyond 64 KiB and 128 KiB
				if hist[i].K == "update" && hist[i].M == "" && r.Chance(0.06) {
					hist[i].M, hist[i].MV = "pad_to", uint64(Pick(r, 65536, 70000, 131072, 140000)-r.IntN(200))
				}
			}
			for _, o := range hist {
				p.Ops = append(p.Ops, o)
				k := r.Range(1, 3)
				for i := 0; i < k; i++ {
					g := Op{K: "get", L: r.IntN(len(p.Cfg.Logs)), M: Pick(r, c16IDKinds...), MV: r.Uint64(), B: r.IntN(2)}
					if g.B == 1 && r.Chance(0.25) {
						g.P = Pick(r, c16NetFaults...)
					}
					p.Ops = append(p.Ops, g)
				}
				if r.Chance(0.4) {
					p.Ops = append(p.Ops, Op{K: "getlist"})
				}
			}
			if n%5 == 4 {
				// SQLite with faults inside the database driver: after a refused write the API must still serve the committed state
				p.Cfg.Store, p.Cfg.Seam, p.Cfg.Clients, p.Cfg.Strategy = "sqlite", "driver", 1, "uniform"
				for occ := 0; occ < 4*len(p.Ops); occ++ {
					for _, call := range []string{"drv.Exec", "drv.Commit", "drv.Rollback", "drv.Query", "drv.Next", "drv.Next"} {
						if r.Chance(0.06) {
							p.Faults = append(p.Faults, Fault{At: fmt.Sprintf("c0:%s#%d", call, occ), Kind: drvKind(r)})
						}
					}
				}
				for i := range p.Ops {
					if p.Ops[i].P == "stall" {
						p.Ops[i].P = "drop"
					}
				}
			} else if n%3 == 1 {
				makeConcurrent(r, p)
				for i := range p.Ops {
					if p.Ops[i].P == "stall" {
						p.Ops[i].P = "drop" // a stall is waited out by a clock jump, which would time out other clients' requests parked meanwhile
					}
				}
			}
			return p
		},
		Run: func(t *testing.T, p *Plan) *Outcome {
			if p.Scenario == "endpoint-reads" {
				out := c03ViaBastion(t, p)
				for i := range out.Viol {
					out.Viol[i].Class, out.Viol[i].Sig = "wrong_bytes", "wrong_bytes/"+out.Viol[i].Sig
				}
				return out
			}
			// with one sequential client nothing but the service itself can keep a request from being answered: a request that is
			// never answered (no task can proceed, hours of simulated time change nothing) is a GET that did not return the stored bytes
			res, out := baseOutcome(t, p, p.Cfg.Clients <= 1)
			if len(out.Infra) > 0 {
				return out
			}
			if len(out.Viol) > 0 {
				for i := range out.Viol {
					out.Viol[i].Sig = "wedge/request_never_answered"
				}
				return out
			}
			out.Viol = append(out.Viol, oracleC16(res)...)
			for _, v := range servedIsStored(res) {
				v.Class, v.Sig = "wrong_bytes", "wrong_bytes/"+v.Sig
				out.Viol = append(out.Viol, v)
			}
			grew := map[string]bool{}
			for _, r := range res.Hist {
				if r.Op.K == "update" && r.Class == "accept" && r.StBefore.Has {
					grew[r.Req.LogID] = true
				}
				if r.Op.K == "get" {
					st := "none"
					if r.StBefore.Has {
						st = "stored"
					}
					resc := fmt.Sprint(r.HStatus)
					if r.Op.B == 1 {
						switch {
						case r.CErr == nil:
							resc = "bytes"
						case errors.Is(r.CErr, os.ErrNotExist):
							resc = "notexist"
						default:
							resc = "error"
						}
					}
					if r.GetIDKind != "known" || grew[r.Req.LogID] {
						out.Distinct = append(out.Distinct, fmt.Sprintf("%s/%d/%s/%s/%s/%s/%s", r.GetIDKind, r.Op.B, st, resc, strings.SplitN(r.NetFault, ":", 2)[0], p.Cfg.Store, p.Cfg.Seam))
					}
					if r.HRedirects > 0 {
						out.Stats.Probes["router_redirect_followed"]++
					}
					out.Stats.Probes["get:"+r.GetIDKind]++
				}
			}
			if res != nil && len(res.Hist) > 0 {
				for k, v := range map[string]int{} {
					_ = k
					_ = v
				}
			}
			var ks []string
			for k := range out.Stats.Probes {
				ks = append(ks, k)
			}
			sort.Strings(ks)
			out.Sample = histSample(p, res)
			return out
		},
		Components: map[string]string{
			"internal/http (handlers, route patterns) + gorilla/mux router": "real (handlers invoked through the router, not through a socket; the real http.Server is exercised in C14)",
			"client/http.Witness": "real, over the simnet RoundTripper",
			"internal/witness + both persistence implementations": "real",
			"network": "simnet (drop, status substitution, truncation, stall)",
		},
		Assumptions: []string{"under the scheduler a read may return any value the log held between its invoke and return stamps", "an injected transport fault on a client lookup must surface as an error that is not 'does not exist'; a substituted 404 would be a lying network and is not injected"},
	})
}
