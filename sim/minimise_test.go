package verifsim

import (
	"testing"
	"time"
)

// minimise shrinks a failing plan by delta debugging while the same
// violation (property + class) persists and is not a listed known finding.
func minimise(t *testing.T, sc *Scenario, plan *Plan, v Violation) (*Plan, *Outcome, int) {
	execs := 0
	deadline := time.Now().Add(25 * time.Second)
	var lastOut *Outcome
	fails := func(p *Plan) bool {
		if execs > 400 || time.Now().After(deadline) {
			return false
		}
		execs++
		out := sc.Run(t, p)
		if len(out.Infra) > 0 {
			return false
		}
		nv, _ := firstNew(out, sc.Prop)
		if nv != nil && nv.Class == v.Class {
			lastOut = out
			return true
		}
		return false
	}
	best := plan.Clone()
	if !fails(best) {
		// not reproducible in-process: report as is; the driver's fresh-process replay will flag it
		out := sc.Run(t, plan)
		return plan, out, execs
	}
	changed := true
	for changed {
		changed = false
		// drop chunks of operations, large to small
		for chunk := len(best.Ops) / 2; chunk >= 1; chunk /= 2 {
			for i := 0; i+chunk <= len(best.Ops); {
				c := best.Clone()
				c.Ops = append(c.Ops[:i:i], c.Ops[i+chunk:]...)
				// boundaries such as "tail starts at op k" move with the operations before them
				for _, key := range []string{"tail_from", "probe_from"} {
					if tf, ok := c.Cfg.Extra[key]; ok {
						removedBefore := int64(0)
						for j := i; j < i+chunk; j++ {
							if int64(j) < tf {
								removedBefore++
							}
						}
						c.Cfg.Extra[key] = tf - removedBefore
					}
				}
				if len(c.Ops) > 0 && fails(c) {
					best = c
					changed = true
				} else {
					i += chunk
				}
			}
		}
		// drop faults
		for i := 0; i < len(best.Faults); {
			c := best.Clone()
			c.Faults = append(c.Faults[:i:i], c.Faults[i+1:]...)
			if fails(c) {
				best = c
				changed = true
			} else {
				i++
			}
		}
		// simplify operations
		for i := range best.Ops {
			o := best.Ops[i]
			try := func(mut func(*Op)) {
				c := best.Clone()
				mut(&c.Ops[i])
				if c.Ops[i] != best.Ops[i] && fails(c) {
					best = c
					changed = true
				}
			}
			if o.M != "" {
				try(func(o *Op) { o.M = ""; o.MV = 0 })
			}
			if o.P != "" {
				try(func(o *Op) { o.P = ""; o.PV = 0 })
			}
			if o.Old != "" {
				try(func(o *Op) { o.Old = ""; o.OldV = 0 })
			}
			if o.D > 1 {
				try(func(o *Op) { o.D = o.D / 2 })
				try(func(o *Op) { o.D = 1 })
			}
			if o.MV > 0 {
				try(func(o *Op) { o.MV = 0 })
			}
			if o.PV > 0 {
				try(func(o *Op) { o.PV = 0 })
			}
			if o.B != 0 {
				try(func(o *Op) { o.B = 0 })
			}
			if o.C != 0 {
				try(func(o *Op) { o.C = 0 })
			}
		}
	}
	// schedule: truncate and zero the tape
	for len(best.Tape) > 0 {
		c := best.Clone()
		c.Tape = c.Tape[:len(c.Tape)/2]
		if fails(c) {
			best = c
		} else {
			break
		}
	}
	for i := range best.Tape {
		if best.Tape[i] != 0 {
			c := best.Clone()
			c.Tape[i] = 0
			if fails(c) {
				best = c
			}
		}
	}
	if best.Cfg.Jumps {
		c := best.Clone()
		c.Cfg.Jumps = false
		if fails(c) {
			best = c
		}
	}
	// final run of the minimised plan, for its event log
	out := sc.Run(t, best)
	if nv, _ := firstNew(out, sc.Prop); nv == nil || nv.Class != v.Class {
		if lastOut != nil {
			return best, lastOut, execs
		}
	}
	return best, out, execs
}
