package verifsim

import (
	"fmt"
	"strings"
	"testing"
)

// ---------------------------------------------------------------- C07

func c07Kinds(key string) []string {
	switch {
	case strings.Contains(key, ":W.GetLatest#"):
		// five error kinds, and three reads that "succeed" with damaged bytes (see damagedRead)
		return []string{"unavailable", "plain", "conndone", "internal", "deadline", "corrupt", "torn", "blank"}
	case strings.Contains(key, ":R.GetLatest#"):
		return []string{"unavailable", "plain", "conndone", "internal", "deadline"}
	case strings.Contains(key, ":drv.Begin#"):
		return []string{"fail", "badconn"}
	}
	return []string{"fail"}
}

func oracleC07(res *RunResult, tailFrom int) []Violation {
	var out []Violation
	recOf := map[int]*OpRec{}
	for _, r := range res.Hist {
		recOf[r.Idx] = r
	}
	for _, r := range res.Hist {
		if r.Op.K != "update" || r.Req == nil || r.Pre == nil || r.Post == nil || r.Pre.Err != "" || r.Post.Err != "" {
			continue
		}
		if r.Class == "accept" && r.Post.CP[r.Req.LogID] != string(r.Out) {
			out = append(out, Violation{Class: "false_success", Sig: "false_success", OpIdx: r.Idx,
				Detail: fmt.Sprintf("op %d (%s) reported accepted and returned %s, but a fault-free read right after returns %s; faults hit: %v", r.Idx, r.Req.Desc, short(r.Out), short([]byte(r.Post.CP[r.Req.LogID])), r.Fired)})
		}
		if r.Err != nil && !r.Pre.Equal(r.Post) {
			out = append(out, Violation{Class: "state_changed_by_failed_update", Sig: "state_changed_by_failed_update/" + r.Class, OpIdx: r.Idx,
				Detail: fmt.Sprintf("op %d (%s) failed with %q but the store changed: before %s after %s; faults hit: %v", r.Idx, r.Req.Desc, r.Err, short([]byte(r.Pre.CP[r.Req.LogID])), short([]byte(r.Post.CP[r.Req.LogID])), r.Fired)})
		}
	}
	for _, v := range oracleC01(res) {
		if strings.HasSuffix(v.Sig, "/served") {
			continue
		}
		cls := "inconsistent_accept_under_faults"
		if r := recOf[v.OpIdx]; r != nil {
			for _, f := range r.Fired {
				if strings.Contains(f, "GetLatest") || strings.Contains(f, "drv.Query") || strings.Contains(f, "drv.Next") || strings.HasPrefix(f, "vfs") {
					cls = "tofu_on_read_error"
				}
			}
		}
		out = append(out, Violation{Class: cls, Sig: cls, OpIdx: v.OpIdx, Detail: v.Detail + fmt.Sprintf(" [faults hit by that op: %v]", recOf[v.OpIdx].Fired)})
	}
	// the fault-free tail: the witness carries on from the last committed state
	for _, r := range res.Hist {
		if r.Idx < tailFrom || r.Op.K != "update" || r.Req == nil {
			continue
		}
		if r.Op.B == -1 && !r.Req.NoHonest && r.Class != "accept" {
			out = append(out, Violation{Class: "tail_state_mismatch", Sig: "tail_state_mismatch/honest_refused/" + r.Class, OpIdx: r.Idx,
				Detail: fmt.Sprintf("after the faults stopped, the honest next step (%s) from the last committed state {%s} was refused: %v", r.Req.Desc, cpBrief(r.StBefore), r.Err)})
		}
	}
	if res.FinalSnap != nil && res.FinalSnap.Err == "" {
		for _, ld := range res.W.Logs {
			want := res.Final[ld.ID]
			got, has := res.FinalSnap.CP[ld.ID]
			if want.Has != has || (has && got != string(want.Raw)) {
				out = append(out, Violation{Class: "tail_state_mismatch", Sig: "tail_state_mismatch/served_state", OpIdx: -1,
					Detail: fmt.Sprintf("log %d: the store serves %s but the last committed write was %s", ld.Idx, short([]byte(got)), short(want.Raw))})
			}
		}
	}
	if o, c := res.Stats.Probes["write_handles_opened"], res.Stats.Probes["write_handles_closed"]; o != c {
		out = append(out, Violation{Class: "wedge_after", Sig: "handle_leaked", OpIdx: -1, Detail: fmt.Sprintf("%d write handles were opened but only %d closed", o, c)})
	}
	if res.InUse != 0 {
		out = append(out, Violation{Class: "wedge_after", Sig: "connection_in_use_at_rest", OpIdx: -1, Detail: fmt.Sprintf("sql.DB.Stats().InUse = %d at rest", res.InUse)})
	}
	return out
}

func genC07History(r *Rng, cfg *Config) []Op {
	var ops []Op
	n := r.Range(2, 6)
	for i := 0; i < n; i++ {
		if r.Chance(0.5) {
			// the clock moves between requests (a refresh then carries a new timestamp, so a write that was dropped shows)
			ops = append(ops, Op{K: "jump", Ms: int64(Pick(r, 1500, 2000, 61000, 3600000))})
		}
		l := r.IntN(len(cfg.Logs))
		nb := len(cfg.Logs[l].Forks) + 1
		switch r.Weighted(35, 12, 22, 8, 8, 8, 5, 2) {
		case 0: // honest step (first use if nothing is stored)
			ops = append(ops, Op{K: "update", L: l, B: -1, D: uint64(r.Range(1, 9))})
		case 1: // refresh
			ops = append(ops, Op{K: "update", L: l, B: -1, Sz: "rel1", D: 0})
		case 2: // the trap: a fork presented as first use
			ops = append(ops, Op{K: "update", L: l, B: 1 + r.IntN(nb-1), Sz: "rel1", D: uint64(r.Range(0, 6)), Old: "zero", P: "empty"})
		case 3: // fork with its own honest proof
			ops = append(ops, Op{K: "update", L: l, B: 1 + r.IntN(nb-1), D: uint64(r.Range(1, 6))})
		case 4: // stale
			ops = append(ops, Op{K: "update", L: l, B: -1, D: uint64(r.Range(1, 5)), Old: "cur-1", P: "honest_old"})
		case 5: // bad proof
			ops = append(ops, Op{K: "update", L: l, B: -1, D: uint64(r.Range(1, 9)), P: Pick(r, "empty", "flip", "random", "drop"), PV: r.Uint64()})
		case 6: // bad signature
			ops = append(ops, Op{K: "update", L: l, D: uint64(r.Range(1, 5)), M: Pick(r, "wrongkey", "badsig"), MV: r.Uint64()})
		default:
			ops = append(ops, Op{K: "read", L: l})
		}
	}
	return ops
}

func c07Exec(t *testing.T, p *Plan) (*RunResult, *Outcome, []Violation) {
	res, out := baseOutcome(t, p, true)
	if len(out.Infra) > 0 {
		return res, out, nil
	}
	v := oracleC07(res, int(p.Cfg.Extra["tail_from"]))
	// "carries on from the last committed state": once at rest the witness serves what the store holds, not something a
	// failed write left behind in memory
	for _, sv := range servedIsStored(res) {
		sv.Class, sv.Sig = "false_success", "false_success/served_but_not_stored/"+sv.Sig
		v = append(v, sv)
	}
	return res, out, v
}

func mergeStats(dst *Stats, src Stats) {
	dst.Decisions += src.Decisions
	dst.Seams += src.Seams
	dst.SimNanos += src.SimNanos
	dst.Inconclusive += src.Inconclusive
	for k, v := range src.Fired {
		dst.Fired[k] += v
	}
	for k, v := range src.Probes {
		dst.Probes[k] += v
	}
}

func init() {
	register(&Scenario{
		Prop:  "C07",
		Level: "fault_enumeration",
		Rule:  "per seeded history (first use, growth, refresh, forks presented as first use, stale, bad proof, bad signature; 1..3 logs; in-memory and single-connection SQLite): a fault-free dry run lists every storage call, then EVERY single fault position is executed - interface level (open-for-write, read-latest with 5 non-NotFound error kinds and 3 kinds of damaged bytes returned without an error - one flipped character in the root-hash line, the first half only, nothing -, write, close) or SQL-driver level (begin incl. bad-connection, query, row fetch, exec, commit, rollback, and statement preparation where the code under test prepares statements) - plus sampled multi-fault patterns (bursts, every other call, everything up to op k) and, on SQLite, VFS-level IOERR / disk-full / short-write windows; each execution ends with a fault-free tail (honest next step per log, then a fork attempt). Oracles: accepted => a fault-free read returns exactly those bytes; failed => store unchanged; commit sequence stays one append-only history (a fork accepted because a failing read looked like 'nothing stored' is the TOFU trap); the tail builds on the last committed state; no wedge (scheduler wedge detection on the one-connection pool), handles opened = closed, sql.DB InUse = 0. evaluations = executions; non-trivial = the injected fault actually fired inside an update; distinct = distinct (call, error kind, op kind, state class, outcome) tuples",
		Gen: func(r *Rng, tier string, n uint64) *Plan {
			if n%11 == 10 {
				// through the add-checkpoint endpoint: a spell of storage errors (low rates, so that little burst is left), then
				// fault-free honest updates, each after two token periods of silence: they must be served
				q := scenarios["C10"].Gen(r, tier, n)
				q.Scenario = "endpoint-after-errors"
				q.Cfg.Store, q.Cfg.Seam = "sqlite", "driver"
				q.Cfg.Extra["rate"] = int64(Pick(r, 1, 2, 3, 5, 20))
				q.Faults = nil
				nreq := 0
				for _, o := range q.Ops {
					if o.K != "jump" {
						if r.Chance(0.6) {
							q.Faults = append(q.Faults, Fault{At: fmt.Sprintf("req:%d", nreq), Kind: Pick(r, "Begin", "Query", "Next", "Exec", "Commit") + "/" + drvKind(r)})
						}
						nreq++
					}
				}
				q.Cfg.Extra["probe_from"] = int64(len(q.Ops))
				for l := range q.Cfg.Logs {
					for k := r.Range(1, 2); k > 0; k-- {
						q.Ops = append(q.Ops, Op{K: "jump", Ms: 2000/q.Cfg.Extra["rate"] + 2}, Op{K: "update", L: l, B: -1, Sz: "rel1", D: uint64(r.Range(0, 6))})
					}
				}
				return q
			}
			pf := Profile{MaxLogs: 3, ShareKeys: true}
			p := &Plan{Scenario: "W"}
			mode := n % 4
			if mode == 1 || mode == 3 {
				pf.Stores = []string{"sqlite"}
			}
			p.Cfg = genConfig(r, pf)
			for l := range p.Cfg.Logs {
				// forks early enough to matter at the small sizes used here
				for b := range p.Cfg.Logs[l].Forks {
					p.Cfg.Logs[l].Forks[b].At = uint64(r.IntN(4))
				}
			}
			p.Cfg.Seam, p.Cfg.Clients, p.Cfg.Strategy, p.Cfg.Snap = "iface", 1, "uniform", true
			p.Ops = genC07History(r, &p.Cfg)
			p.Cfg.Extra = map[string]int64{"tail_from": int64(len(p.Ops)), "enum": 1, "mode": int64(mode)}
			for l := range p.Cfg.Logs {
				p.Ops = append(p.Ops, Op{K: "update", L: l, B: -1, D: uint64(r.Range(1, 4))})
				p.Ops = append(p.Ops, Op{K: "update", L: l, B: 1 + r.IntN(len(p.Cfg.Logs[l].Forks)), Sz: "rel1", D: uint64(r.Range(0, 3)), Old: Pick(r, "cur", "zero"), P: Pick(r, "honest", "empty")})
				p.Ops = append(p.Ops, Op{K: "read", L: l})
			}
			switch mode {
			case 1:
				p.Cfg.Seam = "driver"
			case 2:
				// sampled multi-fault pattern, executed once
				p.Cfg.Extra["enum"] = 0
				if p.Cfg.Store == "sqlite" && r.Bool() {
					p.Cfg.Seam = "driver"
				}
				calls := []string{"WriteOps", "W.GetLatest", "W.Set", "W.Close"}
				if p.Cfg.Seam == "driver" {
					calls = []string{"drv.Begin", "drv.Query", "drv.Next", "drv.Exec", "drv.Commit", "drv.Rollback", "drv.Prepare"}
				}
				pat := r.IntN(3)
				from, every := r.IntN(4), 1+r.IntN(2)
				for _, c := range calls {
					for occ := 0; occ < 3*len(p.Ops); occ++ {
						hit := false
						switch pat {
						case 0: // burst
							hit = occ >= from && occ < from+1+r.IntN(3)
						case 1: // every other
							hit = occ%(every+1) == 0
						default: // random
							hit = r.Chance(0.25)
						}
						if hit {
							p.Faults = append(p.Faults, Fault{At: fmt.Sprintf("c0:%s#%d", c, occ), Kind: Pick(r, c07Kinds("c0:"+c+"#")...)})
						}
					}
				}
			case 3:
				p.Cfg.Extra["enum"] = 0
				p.Cfg.Extra["vfs"] = 1
				a := r.Range(1, 17*int(p.Cfg.Extra["tail_from"]))
				b := a + Pick(r, 0, 0, 1, 3, 10, 40)
				p.Faults = []Fault{{At: fmt.Sprintf("vfs:%d-%d", a, b), Kind: Pick(r, "ioerr", "full", "short")}}
			}
			return p
		},
		Run: func(t *testing.T, p *Plan) *Outcome {
			if p.Scenario == "endpoint-after-errors" {
				return endpointProbes(t, p, "wedge", "wedge/endpoint_refuses_after_storage_errors")
			}
			tail := int(p.Cfg.Extra["tail_from"])
			record := func(out *Outcome, res *RunResult) {
				for _, r := range res.Hist {
					if r.Op.K == "update" && len(r.Fired) > 0 && r.Idx < tail {
						st := "none"
						if r.StBefore.Has {
							st = "stored"
						}
						call, _, _ := strings.Cut(strings.SplitN(r.Fired[0], ":", 2)[1], "#")
						_, kind, _ := strings.Cut(r.Fired[0], "=")
						okind := "honest"
						if r.Op.B > 0 {
							okind = "fork"
							if r.Op.Old == "zero" {
								okind = "fork_as_first_use"
							}
						}
						out.Distinct = append(out.Distinct, fmt.Sprintf("%s/%s/%s/%s/%s/%s", p.Cfg.Store, call, kind, okind, st, r.Class))
					}
				}
			}
			if p.Cfg.Extra["enum"] == 0 || len(p.Faults) > 0 {
				res, out, v := c07Exec(t, p)
				if len(out.Infra) > 0 {
					return out
				}
				out.Viol = append(out.Viol, v...)
				record(out, res)
				out.Sample = histSample(p, res)
				return out
			}
			// enumeration: dry run, then every single fault position
			dry, out, v := c07Exec(t, p)
			if len(out.Infra) > 0 {
				return out
			}
			out.Evals = 1
			if len(v) > 0 {
				out.Viol = v
				return out
			}
			var keys []string
			for _, r := range dry.Hist {
				if r.Idx < tail {
					keys = append(keys, r.Seams...)
				}
			}
			for _, key := range keys {
				if strings.Contains(key, ".ret#") {
					continue // a scheduling point after a completed call, not a call that can fail
				}
				for _, kind := range c07Kinds(key) {
					q := p.Clone()
					q.Faults = []Fault{{At: key, Kind: kind}}
					res, o2, v := c07Exec(t, q)
					out.Evals++
					mergeStats(&out.Stats, o2.Stats)
					if len(o2.Infra) > 0 {
						out.Infra = o2.Infra
						out.Events = o2.Events
						return out
					}
					record(out, res)
					if len(o2.Viol) > 0 || len(v) > 0 {
						out.Viol = append(o2.Viol, v...)
						out.FailPlan = q
						out.Events = o2.Events
						return out
					}
				}
			}
			out.Stats.Probes["histories_fully_enumerated"]++
			out.Stats.Probes["fault_positions"] += len(keys)
			out.Sample = map[string]any{"history": histSample(p, dry), "single_fault_positions": keys}
			return out
		},
		Components:  engineWComponents,
		Assumptions: []string{"interface- and driver-level faults are fail-stop and restricted to what the real stores can do (a failed Set/Exec is not applied; a failed Commit has rolled back; 'commit applied but reported failed' is not something local SQLite does and is not injected)", "VFS-level faults are real SQLite I/O errors produced by a shim VFS; SQLite's own reaction to them is real code", "snapshots use a second fault-free handle on the same store"},
	})
}
