package verifsim

import (
	"encoding/json"
	"errors"
	"fmt"
	"os"
	"path/filepath"
	"sort"
	"strings"
	"testing"
	"time"
)

// ---------------------------------------------------------------- C06

type c06Stats struct {
	children, killed, drvPoints, vfsPoints, torn, secondCrash, inCommit, realRestarts int
	faults                                                                            int64
}

// c06Recovery checks the store after a kill, against the parent's view (built
// from acknowledgements) and the operation that was in flight.
func c06Recovery(w *World, db string, tracked map[string]Stored, inflight *Request, spec string, reads []childRead, real bool, st *c06Stats) ([]Violation, map[string]Stored) {
	var out []Violation
	if real {
		// the operator restarts the REAL binary on the crashed file first; what it serves must be old or new too
		served, status, err := realRestart(os.Getenv("VERIF_OMNI_BIN"), db, w)
		st.realRestarts++
		if errors.Is(err, errPortTrouble) {
			return []Violation{{Class: "infra", Detail: err.Error()}}, nil
		}
		if err != nil {
			return []Violation{{Class: "corrupt_after_crash", Sig: "corrupt_after_crash/real_binary_restart", Detail: fmt.Sprintf("after a kill at %s the real cmd/omniwitness binary could not serve: %v", spec, err)}}, nil
		}
		for _, ld := range w.Logs {
			pre := tracked[ld.ID]
			b, has := served[ld.ID]
			if status[ld.ID] != 200 && status[ld.ID] != 404 {
				out = append(out, Violation{Class: "corrupt_after_crash", Sig: "corrupt_after_crash/real_binary_status", Detail: fmt.Sprintf("log %d: after a kill at %s the restarted cmd/omniwitness answers %d", ld.Idx, spec, status[ld.ID])})
				continue
			}
			if has == pre.Has && string(b) == string(pre.Raw) {
				continue
			}
			got := parseStored(b)
			if inflight != nil && inflight.LogID == ld.ID && has && !got.Bad && got.Text == inflight.Text {
				continue
			}
			cls := "neither_old_nor_new"
			if pre.Has {
				cls = "acked_update_lost"
			}
			out = append(out, Violation{Class: cls, Sig: cls + "/real_binary", Detail: fmt.Sprintf("log %d: after a kill at %s the restarted cmd/omniwitness binary serves {%s} (status %d); the acknowledged state was {%s}", ld.Idx, spec, cpBrief(got), status[ld.ID], cpBrief(pre))})
		}
		if len(out) > 0 {
			return out, nil
		}
	}
	state, logs, err := readStoreState(db, w)
	if err != nil {
		return []Violation{{Class: "corrupt_after_crash", Sig: "corrupt_after_crash/unreadable", Detail: fmt.Sprintf("after a kill at %s the store cannot be read: %v", spec, err)}}, nil
	}
	if ic, err := integrityCheck(db); err != nil || ic != "ok" {
		out = append(out, Violation{Class: "corrupt_after_crash", Sig: "corrupt_after_crash/integrity", Detail: fmt.Sprintf("after a kill at %s PRAGMA integrity_check says %q (%v)", spec, ic, err)})
	}
	for _, ld := range w.Logs {
		got, pre := state[ld.ID], tracked[ld.ID]
		if got.Has {
			if got.Bad {
				out = append(out, Violation{Class: "corrupt_after_crash", Sig: "corrupt_after_crash/unparsable", Detail: fmt.Sprintf("log %d: stored bytes do not parse after a kill at %s: %s", ld.Idx, spec, short(got.Raw))})
				continue
			}
			if cls, d := w.checkCosigned(ld, got.Text, got.Raw, time.Time{}, time.Time{}, false); cls != "" {
				out = append(out, Violation{Class: "corrupt_after_crash", Sig: "corrupt_after_crash/" + cls, Detail: fmt.Sprintf("log %d after a kill at %s: %s", ld.Idx, spec, d)})
				continue
			}
		}
		same := got.Has == pre.Has && string(got.Raw) == string(pre.Raw)
		if same {
			continue
		}
		if inflight != nil && inflight.LogID == ld.ID && got.Has && got.Text == inflight.Text {
			v := modelVerdict(inflight.Known, inflight.SigValid, pre, inflight.Size, inflight.Root, inflight.Old, inflight.Proof)
			if v == "accept" || v == "any" {
				continue // the one being written
			}
			out = append(out, Violation{Class: "neither_old_nor_new", Sig: "neither_old_nor_new/refused_update_persisted", Detail: fmt.Sprintf("log %d: a kill at %s left the checkpoint of an update the protocol refuses (%s): %s", ld.Idx, spec, v, inflight.Desc)})
			continue
		}
		cls := "neither_old_nor_new"
		if pre.Has {
			cls = "acked_update_lost"
		}
		out = append(out, Violation{Class: cls, Sig: cls, Detail: fmt.Sprintf("log %d after a kill at %s: store holds {%s}, acknowledged state was {%s}, in flight: %v", ld.Idx, spec, cpBrief(got), cpBrief(pre), inflight != nil && inflight.LogID == ld.ID)})
	}
	// whatever a reader was handed just before the kill must still be in force (or superseded by a consistent larger one)
	for _, rd := range reads {
		ld := w.Logs[rd.Log]
		seen, got := parseStored(rd.Out), state[ld.ID]
		ok := got.Has && !seen.Bad && !got.Bad
		if ok {
			ok, _ = w.Compatible(ld.Idx, seen.Size, seen.Root, got.Size, got.Root)
		}
		if !ok {
			out = append(out, Violation{Class: "acked_update_lost", Sig: "acked_update_lost/handed_to_reader", Detail: fmt.Sprintf("log %d: just before the kill at %s a reader was handed the cosigned {%s}; after restart the store holds {%s}", ld.Idx, spec, cpBrief(seen), cpBrief(got))})
		}
	}
	have := map[string]bool{}
	for _, id := range logs {
		have[id] = true
	}
	for _, ld := range w.Logs {
		if have[ld.ID] != state[ld.ID].Has {
			out = append(out, Violation{Class: "corrupt_after_crash", Sig: "corrupt_after_crash/loglist", Detail: fmt.Sprintf("log %d: listed=%v but has a checkpoint=%v after a kill at %s", ld.Idx, have[ld.ID], state[ld.ID].Has, spec)})
		}
	}
	return out, state
}

// c06One runs one history with the given crash points (at most one per child) and the behavioural tail.
func c06One(t *testing.T, p *Plan, planPath string, crashes []string, st *c06Stats, real bool) ([]Violation, []string) {
	dir, err := scratchDir("c06")
	if err != nil {
		return nil, []string{err.Error()}
	}
	defer os.RemoveAll(dir)
	db := filepath.Join(dir, "w.db")
	c06DBSuffix = c06DBSuffixOf(p)
	w := NewWorld(p)
	nHist := min(int(p.Cfg.Extra["tail_from"]), len(p.Ops))
	tracked := map[string]Stored{}
	from := 0
	if real && os.Getenv("VERIF_OMNI_BIN") != "" {
		// the store is created by the operator's first start of the REAL binary (its journal mode, its pragmas)
		if _, _, err := realRestart(os.Getenv("VERIF_OMNI_BIN"), db, w); errors.Is(err, errPortTrouble) {
			return nil, []string{err.Error()}
		} else if err != nil {
			return []Violation{{Class: "corrupt_after_crash", Sig: "corrupt_after_crash/real_binary_first_start", Detail: "the real cmd/omniwitness binary could not start on a fresh store file: " + err.Error()}}, nil
		}
		st.realRestarts++
	}
	for ci := 0; from < nHist; ci++ {
		spec := ""
		if ci < len(crashes) {
			spec = crashes[ci]
		}
		cr, err := runChild(planPath, db, from, nHist, spec, false)
		st.children++
		if err != nil {
			return nil, []string{"child: " + err.Error()}
		}
		st.faults += cr.Faults
		if cr.Exit != 0 {
			return nil, []string{fmt.Sprintf("child exited with %d: %s", cr.Exit, cr.Stderr)}
		}
		// replay acknowledgements into the parent's view
		next := from
		for _, a := range cr.Acks {
			if a.Op != next {
				return nil, []string{fmt.Sprintf("child acknowledged op %d, expected %d", a.Op, next)}
			}
			op := p.Ops[a.Op]
			if op.K == "update" {
				req := resolveUpdate(w, op, tracked[w.Logs[op.L%len(w.Logs)].ID])
				if a.Class == "accept" {
					tracked[req.LogID] = parseStored(a.Out)
				}
			}
			next++
		}
		if !cr.Killed {
			if !cr.Done {
				return nil, []string{"child neither finished nor was killed: " + cr.Stderr}
			}
			break
		}
		st.killed++
		var inflight *Request
		if next < nHist && p.Ops[next].K == "update" {
			op := p.Ops[next]
			inflight = resolveUpdate(w, op, tracked[w.Logs[op.L%len(w.Logs)].ID])
		}
		viol, state := c06Recovery(w, db, tracked, inflight, spec, cr.Reads, real && os.Getenv("VERIF_OMNI_BIN") != "", st)
		if len(viol) == 1 && viol[0].Class == "infra" {
			return nil, []string{viol[0].Detail}
		}
		if len(viol) > 0 {
			return viol, nil
		}
		for id, s := range state {
			tracked[id] = s
		}
		from = next + 1
	}
	// behavioural tail on the restarted witness, opened the way production opens it
	q := p.Clone()
	q.Cfg.Store, q.Cfg.Seam, q.Cfg.Clients, q.Cfg.DBPath = "sqlite", "none", 1, db
	q.Ops = append([]Op{}, p.Ops[nHist:]...)
	q.Cfg.Extra = map[string]int64{}
	res := Execute(t, q)
	if len(res.Infra) > 0 {
		return nil, res.Infra
	}
	var out []Violation
	seed := map[string]Stored{}
	if res.SeedSnap != nil {
		for id, b := range res.SeedSnap.CP {
			seed[id] = parseStored([]byte(b))
		}
	}
	for _, ld := range w.Logs {
		want, got := tracked[ld.ID], seed[ld.ID]
		if want.Has != got.Has || string(want.Raw) != string(got.Raw) {
			out = append(out, Violation{Class: "acked_update_lost", Sig: "acked_update_lost/at_restart", Detail: fmt.Sprintf("log %d: restarted witness holds {%s}, the history left {%s}", ld.Idx, cpBrief(got), cpBrief(want))})
		}
	}
	for id, seq := range setsByLog(res) {
		ld := w.LogByID(id)
		prev := seed[id]
		for _, s := range seq {
			cur := parseStored(s.Bytes)
			if prev.Has && !prev.Bad && !cur.Bad {
				if ok, why := w.Compatible(ld.Idx, prev.Size, prev.Root, cur.Size, cur.Root); !ok {
					out = append(out, Violation{Class: "fork_accepted_after_restart", Sig: "fork_accepted_after_restart/" + why, Detail: fmt.Sprintf("log %d: after restart the witness moved from {%s} to {%s}", ld.Idx, cpBrief(prev), cpBrief(cur))})
				}
			}
			prev = cur
		}
	}
	for _, r := range res.Hist {
		if r.Op.K == "update" && r.Op.B == -1 && !r.Req.NoHonest && r.Class != "accept" {
			if r.StBefore.Has && r.StBefore.Size == 0 {
				continue // F2 (C08) territory, not a crash matter
			}
			out = append(out, Violation{Class: "honest_step_refused_after_restart", Sig: "honest_step_refused_after_restart/" + r.Class, Detail: fmt.Sprintf("after restart the honest next step (%s) from {%s} was refused: %v", r.Req.Desc, cpBrief(r.StBefore), r.Err)})
		}
	}
	return out, nil
}

func c06Reference(planPath string, p *Plan) (*childResult, []string) {
	var refs [2]*childResult
	for i := range refs {
		dir, err := scratchDir("c06")
		if err != nil {
			return nil, []string{err.Error()}
		}
		cr, err := runChild(planPath, filepath.Join(dir, "w.db"), 0, int(p.Cfg.Extra["tail_from"]), "", true)
		os.RemoveAll(dir)
		if err != nil || cr.Exit != 0 || !cr.Done {
			return nil, []string{fmt.Sprintf("reference child failed: %v %v", err, cr)}
		}
		refs[i] = cr
	}
	if strings.Join(refs[0].DrvOps, ",") != strings.Join(refs[1].DrvOps, ",") || fmt.Sprint(refs[0].DrvVFS) != fmt.Sprint(refs[1].DrvVFS) || refs[0].TotVFS != refs[1].TotVFS {
		return nil, []string{"operation numbering is not a pure function of the plan: two crash-free runs of the same history traced differently"}
	}
	return refs[0], nil
}

func init() {
	register(&Scenario{
		Prop:  "C06",
		Level: "fault_enumeration",
		Rule:  "per seeded history of 2..8 updates over 1..3 logs (first use, growth, refresh, refused) on a file-backed SQLite store opened as production opens it, run in a child process: a crash-free traced run numbers every database-driver operation (begin/query/exec/commit/rollback, incl. the start-up CREATE TABLE) and every VFS write/sync/truncate/delete inside them (twice, traces must agree); then the child is SIGKILLed at EVERY driver-operation boundary (before and after) and at EVERY numbered VFS operation (clean, and torn after k bytes), the store is reopened by a fresh handle, checked (each log holds the acknowledged checkpoint, or for the log of the in-flight update possibly the one being written; validly cosigned; integrity_check ok; log list consistent), the history continues - for a seeded third of the points into a second kill - and finally the restarted witness must refuse forks of what it holds and accept the honest next step. evaluations = kill points executed; non-trivial = the kill landed inside an update (after start-up, before the last acknowledgement); distinct = distinct (driver op kind or vfs, phase, update kind in flight, outcome old/new) tuples",
		Gen: func(r *Rng, tier string, n uint64) *Plan {
			pf := Profile{MaxLogs: 3, ShareKeys: true, Stores: []string{"sqlite"}}
			p := &Plan{Scenario: "crash"}
			p.Cfg = genConfig(r, pf)
			for l := range p.Cfg.Logs {
				for b := range p.Cfg.Logs[l].Forks {
					p.Cfg.Logs[l].Forks[b].At = uint64(r.IntN(4))
				}
			}
			k := r.Range(2, 4)
			if tier == "thorough" {
				k = r.Range(2, 8)
			}
			for i := 0; i < k; i++ {
				l := r.IntN(len(p.Cfg.Logs))
				nb := len(p.Cfg.Logs[l].Forks) + 1
				switch r.Weighted(50, 15, 15, 10, 10) {
				case 0:
					p.Ops = append(p.Ops, Op{K: "update", L: l, B: -1, Sz: "rel1", D: uint64(r.Range(1, 9))})
				case 1:
					p.Ops = append(p.Ops, Op{K: "update", L: l, B: -1, Sz: "rel1", D: 0})
				case 2:
					p.Ops = append(p.Ops, Op{K: "update", L: l, B: 1 + r.IntN(nb-1), Sz: "rel1", D: uint64(r.Range(0, 4)), Old: Pick(r, "cur", "zero"), P: Pick(r, "honest", "empty")})
				case 3:
					p.Ops = append(p.Ops, Op{K: "update", L: l, B: -1, Sz: "rel1", D: uint64(r.Range(1, 5)), Old: "cur-1", P: "honest_old"})
				default:
					p.Ops = append(p.Ops, Op{K: "update", L: l, B: -1, Sz: "rel1", D: uint64(r.Range(1, 5)), P: Pick(r, "flip", "random", "empty"), PV: r.Uint64()})
				}
			}
			if n%3 == 1 {
				// storage errors short of a crash, too: some driver operations fail (SQLite busy/locked, I/O error, disk full)
				for i := 1; i <= 7*k; i++ {
					if r.Chance(0.1) {
						p.Faults = append(p.Faults, Fault{At: fmt.Sprintf("mf:%d", i), Kind: drvKind(r)})
					}
				}
			}
			p.Cfg.Extra = map[string]int64{"tail_from": int64(len(p.Ops)), "torn_seed": int64(r.Uint32()), "second_seed": int64(r.Uint32())}
			if n%4 == 2 {
				p.Cfg.Extra["wal"] = 1 // the operator runs the store in WAL mode (--db_file=<path>?_journal_mode=WAL)
			}
			for l := range p.Cfg.Logs {
				nb := len(p.Cfg.Logs[l].Forks) + 1
				p.Ops = append(p.Ops, Op{K: "update", L: l, B: 1 + r.IntN(nb-1), Sz: "rel1", D: 0, P: "empty"})
				p.Ops = append(p.Ops, Op{K: "update", L: l, B: 1 + r.IntN(nb-1), Sz: "rel1", D: uint64(r.Range(1, 3))})
				p.Ops = append(p.Ops, Op{K: "update", L: l, B: 1 + r.IntN(nb-1), Sz: "rel1", D: uint64(r.Range(0, 3)), Old: "zero", P: "empty"})
				p.Ops = append(p.Ops, Op{K: "update", L: l, B: -1, Sz: "rel1", D: uint64(r.Range(1, 3))})
			}
			return p
		},
		Run: func(t *testing.T, p *Plan) *Outcome {
			out := &Outcome{Stats: newStats()}
			dir, err := scratchDir("c06p")
			if err != nil {
				out.Infra = []string{err.Error()}
				return out
			}
			defer os.RemoveAll(dir)
			planPath := filepath.Join(dir, "plan.json")
			pb, _ := json.Marshal(p)
			if err := os.WriteFile(planPath, pb, 0o600); err != nil {
				out.Infra = []string{err.Error()}
				return out
			}
			st := &c06Stats{}
			finish := func() *Outcome {
				out.Stats.Probes["child_processes"] += st.children
				out.Stats.Fired["process_kill"] += st.killed
				out.Stats.Fired["driver_error_short_of_a_crash"] += int(st.faults)
				out.Stats.Fired["kill_at_driver_boundary"] += st.drvPoints
				out.Stats.Fired["kill_at_vfs_op"] += st.vfsPoints
				out.Stats.Fired["torn_write_kill"] += st.torn
				out.Stats.Probes["second_kill_in_same_history"] += st.secondCrash
				out.Stats.Probes["restarts_by_real_cmd_omniwitness_binary"] += st.realRestarts
				return out
			}
			if spec, ok := p.Cfg.Notes["crash"]; ok {
				// one explicit crash scenario (replay)
				crashes := strings.Split(spec, ";")
				v, infra := c06One(t, p, planPath, crashes, st, p.Cfg.Notes["real"] == "1")
				out.Viol, out.Infra = v, infra
				out.Events = []string{"crash points: " + spec}
				return finish()
			}
			ref, infra := c06Reference(planPath, p)
			if len(infra) > 0 {
				out.Infra = infra
				return out
			}
			tr := NewRng(uint64(p.Cfg.Extra["torn_seed"]))
			sr := NewRng(uint64(p.Cfg.Extra["second_seed"]))
			var points []string
			for i := range ref.DrvOps {
				points = append(points, fmt.Sprintf("drv:%d:before", i+1), fmt.Sprintf("drv:%d:after", i+1))
			}
			for j := int64(1); j <= ref.TotVFS; j++ {
				points = append(points, fmt.Sprintf("vfs:%d:clean", j), fmt.Sprintf("vfs:%d:torn:%d", j, tr.Range(0, 4200)))
			}
			// a crash-free run with the tail, first
			if v, infra := c06One(t, p, planPath, nil, st, false); len(infra) > 0 || len(v) > 0 {
				out.Viol, out.Infra = v, infra
				out.Evals = 1
				return finish()
			}
			out.Evals = 1
			for _, pt := range points {
				crashes := []string{pt}
				if sr.IntN(3) == 0 {
					// a second kill somewhere in the continuation (numbers restart in the new child)
					if sr.Bool() {
						crashes = append(crashes, fmt.Sprintf("drv:%d:%s", sr.Range(1, 8), Pick(sr, "before", "after")))
					} else {
						crashes = append(crashes, fmt.Sprintf("vfs:%d:%s", sr.Range(1, 30), Pick(sr, "clean", "torn:100")))
					}
					st.secondCrash++
				}
				switch {
				case strings.HasPrefix(pt, "drv:"):
					st.drvPoints++
				case strings.Contains(pt, "torn"):
					st.torn++
					st.vfsPoints++
				default:
					st.vfsPoints++
				}
				// for kills inside a commit (where SQLite leaves a hot journal) and a seeded few others, the REAL binary restarts first
				real := sr.IntN(12) == 0
				if strings.HasPrefix(pt, "drv:") {
					var n int
					fmt.Sscan(strings.Split(pt, ":")[1], &n)
					if ref.DrvOps[n-1] == "Commit" {
						real = true
					}
				} else {
					var j int64
					fmt.Sscan(strings.Split(pt, ":")[1], &j)
					for i, o := range ref.DrvOps {
						hi := ref.TotVFS
						if i+1 < len(ref.DrvVFS) {
							hi = ref.DrvVFS[i+1]
						}
						if o == "Commit" && j > ref.DrvVFS[i] && j <= hi && !strings.Contains(pt, "torn") && sr.IntN(3) == 0 {
							real = true
						}
					}
				}
				v, infra := c06One(t, p, planPath, crashes, st, real)
				out.Evals++
				if len(infra) > 0 {
					out.Infra = infra
					return finish()
				}
				kind := "vfs"
				if strings.HasPrefix(pt, "drv:") {
					var n int
					var ph string
					f := strings.Split(pt, ":")
					fmt.Sscan(f[1], &n)
					ph = f[2]
					kind = ref.DrvOps[n-1] + "/" + ph
				} else if strings.Contains(pt, "torn") {
					kind = "vfs/torn"
				}
				out.Distinct = append(out.Distinct, kind)
				if len(v) > 0 {
					q := p.Clone()
					if q.Cfg.Notes == nil {
						q.Cfg.Notes = map[string]string{}
					}
					q.Cfg.Notes["crash"] = strings.Join(crashes, ";")
					if real {
						q.Cfg.Notes["real"] = "1"
					}
					out.Viol, out.FailPlan = v, q
					out.Events = []string{"crash points: " + strings.Join(crashes, ";")}
					return finish()
				}
			}
			out.Stats.Probes["histories_fully_enumerated"]++
			out.Stats.Probes["driver_ops_in_history"] += len(ref.DrvOps)
			out.Stats.Probes["vfs_ops_in_history"] += int(ref.TotVFS)
			var kinds []string
			seen := map[string]bool{}
			for _, o := range ref.DrvOps {
				if !seen[o] {
					seen[o] = true
					kinds = append(kinds, o)
				}
			}
			sort.Strings(kinds)
			var ops []string
			for _, o := range p.Ops[:int(p.Cfg.Extra["tail_from"])] {
				ops = append(ops, o.String())
			}
			out.Sample = map[string]any{"seed": p.Seed, "history": ops, "driver_ops": ref.DrvOps, "vfs_ops": ref.TotVFS, "kill_points": len(points)}
			return finish()
		},
		Components: map[string]string{
			"internal/witness, internal/persistence/sql, database/sql, go-sqlite3 + SQLite (file-backed, one connection)": "real, in a child process",
			"crash":   "real SIGKILL of the child at a driver-operation boundary (wrapping database/sql driver) or at a numbered VFS operation (shim SQLite VFS, clean or torn write)",
			"restart": "fresh child process / fresh sql.DB on the same file; the behavioural tail runs the real witness in-process on the reopened file",
			"cmd/omniwitness (main, its own way of opening the store, HTTP server)": "real binary built from the tree under test, started on the crashed file for kills inside commits and a seeded sample of others, queried over loopback HTTP, then stopped",
			"clock": "real clock in the child (nothing in this property depends on time)",
		},
		Assumptions: []string{"process kill, not power loss: the OS page cache survives, so loss or reordering of unsynced writes is not modelled", "the child is single-goroutine on the storage path, so operation numbering is a pure function of the plan (verified per history by two traced runs)", "replay of a C06 finding re-runs the same history with the same kill points in fresh child processes"},
	})
}
