package verifsim

import (
	"hash/fnv"
	"math/rand/v2"
)

// splitmix64 step; used to derive independent per-run seeds from VERIF_SEED.
func splitmix(x uint64) uint64 {
	x += 0x9e3779b97f4a7c15
	x = (x ^ (x >> 30)) * 0xbf58476d1ce4e5b9
	x = (x ^ (x >> 27)) * 0x94d049bb133111eb
	return x ^ (x >> 31)
}

func strHash(s string) uint64 {
	h := fnv.New64a()
	h.Write([]byte(s))
	return h.Sum64()
}

// runSeed derives the seed of run #n of a property from the base seed.
func runSeed(base uint64, prop string, n uint64) uint64 {
	return splitmix(splitmix(base^strHash(prop)) + n*0x632be59bd9b4e019)
}

// Rng is the only source of randomness in generation.
type Rng struct{ *rand.Rand }

func NewRng(seed uint64) *Rng { return &Rng{rand.New(rand.NewPCG(seed, splitmix(seed)))} }

func (r *Rng) Bool() bool            { return r.IntN(2) == 0 }
func (r *Rng) Chance(p float64) bool { return r.Float64() < p }
func (r *Rng) Range(lo, hi int) int { // inclusive
	if hi <= lo {
		return lo
	}
	return lo + r.IntN(hi-lo+1)
}
func (r *Rng) U64n(n uint64) uint64 {
	if n == 0 {
		return 0
	}
	return r.Uint64N(n)
}
func Pick[T any](r *Rng, xs ...T) T { return xs[r.IntN(len(xs))] }

// Weighted picks an index with the given integer weights.
func (r *Rng) Weighted(w ...int) int {
	t := 0
	for _, x := range w {
		t += x
	}
	n := r.IntN(t)
	for i, x := range w {
		if n < x {
			return i
		}
		n -= x
	}
	return len(w) - 1
}

func (r *Rng) Seed32() (s [32]byte) {
	for i := 0; i < 4; i++ {
		v := r.Uint64()
		for j := 0; j < 8; j++ {
			s[i*8+j] = byte(v >> (8 * j))
		}
	}
	return
}

func (r *Rng) Bytes(n int) []byte {
	b := make([]byte, n)
	for i := range b {
		b[i] = byte(r.Uint32())
	}
	return b
}
